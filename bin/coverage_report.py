#!/usr/bin/env python3
"""coverage_report.py - which routines carrying an exit marker (hook H0) were reached by the checks, from evidence/*.json"""
import glob, json, re, os
src = os.environ.get('VERIF_SRC', '/repo')
# functions containing a __M4RI_DD_ marker
funcs = {}
for f in glob.glob(src + '/m4ri/*.[ch]'):
    cur = None
    for line in open(f, errors='replace'):
        m = re.match(r'^(?:static\s+)?(?:inline\s+)?[\w\s\*]+?\b(\w+)\s*\([^;]*$', line)
        if m and not line.startswith(' ') and not line.startswith('#') and '(' in line:
            cur = m.group(1)
        if '__M4RI_DD_' in line and cur and not line.lstrip().startswith('#'):
            funcs.setdefault(cur, os.path.basename(f))
reached = {}
for e in glob.glob(os.path.dirname(os.path.abspath(__file__)) + '/../evidence/*.json'):
    ev = json.load(open(e))
    for k, v in ev['coverage'].get('internal_routines_reached', {}).items():
        reached.setdefault(k, {})[ev['property_id']] = v
miss = sorted(set(funcs) - set(reached))
print('routines with exit markers: %d, reached by some check: %d' % (len(funcs), len(set(funcs) & set(reached))))
print('never reached:', ', '.join('%s(%s)' % (m, funcs[m]) for m in miss))
