#!/bin/bash
# Run the repository's own test suite (15 tests) with the verification guard M4RI_VERIF OFF
# (the default build never defines it). Falls back to compiling tests directly if make cannot run.
cd /repo || exit 2
if make -j8 check 2>&1 | tee /tmp/baseline_off.log | grep -E "^(PASS|FAIL|XFAIL|ERROR|# )"; then
  grep -q "^# FAIL:  0" /tmp/baseline_off.log && grep -q "^# ERROR: 0" /tmp/baseline_off.log && exit 0
fi
exit 1
