#!/bin/bash
# build.sh <cfg> : compile the m4ri sources of $VERIF_SRC (default /repo) and the harness for one
# build configuration into /verif/build/<cfg>/ .
#
# cfg = <cache>_<sse|nosse>_<cache|ts>_<seq|omp>[_asan|_tsan][_cap]
#   cache: host (32768:1310720:56623104) small (4096:32768:65536) mid (32768:262144:1048576)
#          c128 (8192:65536:131072) c256 (16384:131072:262144) c4m (16384:524288:4194304) tiny (1024:2048:4096, model binding only)
#   cache|ts: block+header caches on / --enable-thread-safe
#   _asan: clang ASan+UBSan   _tsan: gcc TSan   _cap: reduced allocator capacities (hook H4)
# The guard M4RI_VERIF is always ON here (MANIFEST.hooks.enable); VERIF_NOHOOKS=1 turns it off.
set -e
cfg=$1
[ -n "$cfg" ] || { echo "usage: build.sh <cfg>"; exit 2; }
V=$(cd "$(dirname "$0")/.." && pwd)
SRC=${VERIF_SRC:-/repo}
B=${VERIF_BUILD:-$V/build}/$cfg
mkdir -p $B/m4ri $B/obj
IFS=_ read -r cache sse caches par x1 x2 <<<"$cfg"
case $cache in
  host)  L1=32768; L2=1310720; L3=56623104;;
  small) L1=4096;  L2=32768;   L3=65536;;
  mid)   L1=32768; L2=262144;  L3=1048576;;
  c128)  L1=8192;  L2=65536;   L3=131072;;
  c256)  L1=16384; L2=131072;  L3=262144;;
  c4m)   L1=16384; L2=524288;  L3=4194304;;
  ceq)   L1=65536; L2=65536;   L3=65536;;     # all three levels equal (admissible: L1 <= L2 <= L3)
  cl1)   L1=262144; L2=262144; L3=2097152;;  # unusually large L1
  # below the range of real machines (the properties do not quantify over it): used only to bind the recursive models to
  # the code on matrices small enough for TLC (PLE recursion above 512 words, TRSM recursion above 64 rows, Strassen cutoff 128)
  tiny)  L1=1024;  L2=2048;    L3=4096;;
  *) echo "bad cache $cache"; exit 2;;
esac
case $sse in sse) SSE=1;; nosse) SSE=0;; *) echo "bad sse"; exit 2;; esac
case $caches in cache) CA=1;; ts) CA=0;; *) echo "bad caches"; exit 2;; esac
case $par in seq) OMP=0;; omp) OMP=1;; *) echo "bad par"; exit 2;; esac
# as configure.ac does: --enable-thread-safe turns both caches off, OpenMP turns the header cache off
MZC=$CA; [ $OMP = 1 ] && MZC=0
CC=gcc; CFLAGS="-O2 -g -std=gnu99"; LDF=""
EXTRA=""
for x in $x1 $x2; do
  case $x in
    asan) CC=clang; CFLAGS="-O1 -g -std=gnu99 -fsanitize=address,undefined -fno-sanitize-recover=all -fno-omit-frame-pointer"; LDF="-fsanitize=address,undefined";;
    tsan) CC=gcc; CFLAGS="-O1 -g -std=gnu99 -fsanitize=thread"; LDF="-fsanitize=thread";;
    cap)  EXTRA="-DM4RI_VERIF_MMC_NBLOCKS=3 -DM4RI_VERIF_MZD_CACHE_MAX=2";;
    cov)  CFLAGS="-O0 -g -std=gnu99 --coverage"; LDF="--coverage";;      # line coverage of the library under the drivers (bin/linecov.sh)
  esac
done
[ $OMP = 1 ] && { CFLAGS="$CFLAGS -fopenmp"; LDF="$LDF -fopenmp"; }
[ $SSE = 1 ] && CFLAGS="$CFLAGS -msse2"
[ "${VERIF_NOHOOKS:-0}" = 1 ] || CFLAGS="$CFLAGS -DM4RI_VERIF"
CFLAGS="$CFLAGS $EXTRA"
cat > $B/m4ri/m4ri_config.h.new <<EOF
#ifndef M4RI_M4RI_CONFIG_H
#define M4RI_M4RI_CONFIG_H
#define __M4RI_HAVE_MM_MALLOC		1
#define __M4RI_HAVE_POSIX_MEMALIGN	1
#define __M4RI_HAVE_SSE2		$SSE
#define __M4RI_HAVE_OPENMP		$OMP
#define __M4RI_CPU_L1_CACHE		$L1
#define __M4RI_CPU_L2_CACHE		$L2
#define __M4RI_CPU_L3_CACHE		$L3
#define __M4RI_DEBUG_DUMP		(0 || 0)
#define __M4RI_DEBUG_MZD		0
#define __M4RI_HAVE_LIBPNG              1
#define __M4RI_CC                       "$CC"
#define __M4RI_CFLAGS                   "verif"
#define __M4RI_SIMD_CFLAGS              ""
#define __M4RI_OPENMP_CFLAGS            ""
#define __M4RI_USE_MM_MALLOC		(__M4RI_HAVE_MM_MALLOC && __M4RI_HAVE_SSE2)
#define __M4RI_USE_POSIX_MEMALIGN	(__M4RI_HAVE_POSIX_MEMALIGN && __M4RI_HAVE_SSE2)
#define __M4RI_DD_QUIET			(0 && !0)
#define __M4RI_ENABLE_MZD_CACHE         $MZC
#define __M4RI_ENABLE_MMC               $CA
#endif
EOF
cmp -s $B/m4ri/m4ri_config.h.new $B/m4ri/m4ri_config.h || mv $B/m4ri/m4ri_config.h.new $B/m4ri/m4ri_config.h
INC="-include $B/m4ri/m4ri_config.h -I$B -I$B/m4ri -I$SRC -I/usr/include/libpng16"
# config.h is a generated (untracked) autoconf header next to the sources; fall back to the pinned copy
[ -f $SRC/m4ri/config.h ] || INC="$INC -I$V/configs"
pids=()
for f in $SRC/m4ri/*.c; do
  o=$B/obj/$(basename ${f%.c}).o
  $CC $CFLAGS -DHAVE_CONFIG_H $INC -c $f -o $o 2>$o.log &
  pids+=($!)
done
for f in $V/harness/*.c; do
  o=$B/obj/h_$(basename ${f%.c}).o
  $CC $CFLAGS -D_GNU_SOURCE -DVH_CFG="\"$cfg\"" $INC -I$V/harness -c $f -o $o 2>$o.log &
  pids+=($!)
done
fail=0
for p in "${pids[@]}"; do wait $p || fail=1; done
if [ $fail = 1 ]; then cat $B/obj/*.log | grep -i "error" | head -20; echo "BUILD FAILED $cfg"; exit 2; fi
WRAP="-Wl,--wrap=malloc,--wrap=calloc,--wrap=realloc,--wrap=free,--wrap=posix_memalign,--wrap=m4ri_die"
$CC $LDF $WRAP -o $B/vh $B/obj/*.o -lm -lpng -lpthread
echo "built $B/vh"
