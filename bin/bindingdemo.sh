#!/bin/bash
# bindingdemo.sh - demonstrates that the trace specifications are bound to what the harness records (DESIGN 7.3):
# a recorded run is accepted as it is and rejected after a single recorded field has been corrupted / after the
# library's memory was changed behind the back of the events. Not a registered check; scratch files under build/.
V=$(cd "$(dirname "$0")/.." && pwd)
CFG=small_sse_cache_seq
D=$V/build/bindingdemo; rm -rf $D; mkdir -p $D
$V/bin/build.sh $CFG > $D/build.log 2>&1 || { cat $D/build.log; exit 2; }
VH=$V/build/$CFG/vh
judge() { # <spec> <trace> -> prints "nops nbad"
  (cd $V/spec/trace && TRACE=$2 TLC_TIMEOUT=600 $V/bin/tlc.sh $1.tla $1.cfg $D/meta_$$ -workers 1 2>&1) | sed -n 's/^<<"VDONE", [0-9]*, \([0-9]*\), \([0-9]*\)>>/\1 \2/p'
}
ok=1
say() { printf '%-78s %s\n' "$1" "$2"; [ "$2" = OK ] || ok=0; }

# 1. products: accepted; then one bit of one recorded result row is flipped
$VH drive mul --out $D/mul.ndjson --seed 1 --shard 0/1 --tier quick --cases 40 --extra nosweep > $D/mul.log 2>&1
r=$(judge TraceOps $D/mul.ndjson); say "recorded products accepted ($r)" $([ "${r#* }" = 0 ] && echo OK || echo FAILED)
python3 - $D/mul.ndjson $D/mul_bad.ndjson <<'PY'
import json, sys
lines = open(sys.argv[1]).read().splitlines()
# the post-state def of the first op's written operand
for i, ln in enumerate(lines):
    if ln.startswith('{"e":"op"'):
        ev = json.loads(ln); post = [o['post'] for o in ev['o'] if o['role'] in 'obr' and o['post'] != o['pre']]
        if post:
            d = json.loads(lines[post[0] - 1]); row = d['rows'][0]
            d['rows'][0] = row[1:] if row and row[0] == 0 else [0] + row
            lines[post[0] - 1] = json.dumps(d, separators=(',', ':')); break
open(sys.argv[2], 'w').write('\n'.join(lines) + '\n')
PY
r=$(judge TraceOps $D/mul_bad.ndjson); say "same run with one recorded result bit flipped is rejected ($r)" $([ "${r#* }" != 0 ] && echo OK || echo FAILED)

# 2. allocator: accepted; then the recorded "fresh storage is zero" observation of one event is changed
$VH drive alloc --out $D/alloc.ndjson --seed 1 --shard 0/1 --tier quick --cases 1 > $D/alloc.log 2>&1
(cd $V/spec/trace && TRACE=$D/alloc.ndjson TLC_TIMEOUT=900 $V/bin/tlc.sh TraceAlloc.tla TraceAlloc.cfg $D/meta_a -workers 1 2>&1) > $D/alloc.tlc
n=$(grep -c VFAIL $D/alloc.tlc); say "recorded allocation history accepted ($n rejected events)" $([ "$n" = 0 ] && echo OK || echo FAILED)
python3 - $D/alloc.ndjson $D/alloc_bad.ndjson <<'PY'
import sys
s = open(sys.argv[1]).read(); i = s.find('"zero":1', len(s) // 2)
open(sys.argv[2], 'w').write(s[:i] + '"zero":0' + s[i + 8:])
PY
(cd $V/spec/trace && TRACE=$D/alloc_bad.ndjson TLC_TIMEOUT=900 $V/bin/tlc.sh TraceAlloc.tla TraceAlloc.cfg $D/meta_a -workers 1 2>&1) > $D/alloc_bad.tlc
n=$(grep -c 'VFAIL.*fresh_not_zero' $D/alloc_bad.tlc); say "same history with one 'fresh storage is zero' observation changed is rejected" $([ "$n" = 1 ] && echo OK || echo FAILED)

# 3. Store programs: accepted; with a bit flipped in the library's memory BETWEEN two calls the per-call validator still
#    accepts every call, the stateful validator (carrying the specification's store) rejects
(cd $V/spec/gen && rm -rf $D/sim && mkdir $D/sim && TLC_TIMEOUT=300 $V/bin/tlc.sh Gen_Store.tla Gen_Store.cfg $D/meta_g -workers 1 -simulate file=$D/sim/tr,num=12 -depth 26 -seed 5 > $D/gen.log 2>&1)
python3 - $D/sim $D/progs.ndjson <<'PY'
import glob, json, re, sys
out = []
for fn in sorted(glob.glob(sys.argv[1] + '/tr_*')):
    t = open(fn).read(); recs = []
    for rec in re.findall(r'\[([^\]]*)\]', t[t.rfind('hist = '):]):
        d = {}
        for fld in rec.split(','):
            k, _, v = fld.partition('|->'); v = v.strip(); d[k.strip()] = v.strip('"') if v.startswith('"') else int(v)
        recs.append(d)
    out.append(json.dumps(recs, separators=(',', ':')))
open(sys.argv[2], 'w').write('\n'.join(out) + '\n')
PY
$VH drive prog --out $D/prog.ndjson --seed 1 --shard 0/1 --tier quick --extra prog=$D/progs.ndjson > $D/prog.log 2>&1
r=$(judge TraceStore $D/prog.ndjson); say "generated programs: run accepted by the stateful validator ($r)" $([ "${r#* }" = 0 ] && echo OK || echo FAILED)
$VH drive prog --out $D/progg.ndjson --seed 1 --shard 0/1 --tier quick --extra prog=$D/progs.ndjson,glitch > $D/progg.log 2>&1
r1=$(judge TraceOps $D/progg.ndjson); r2=$(judge TraceStore $D/progg.ndjson)
say "memory changed between two calls: per-call validator accepts ($r1)" $([ "${r1#* }" = 0 ] && echo OK || echo FAILED)
say "memory changed between two calls: stateful validator rejects ($r2)" $([ "${r2#* }" != 0 ] && echo OK || echo FAILED)
rm -rf $D/sim $D/meta_*
[ $ok = 1 ] && echo "binding demonstrated" || { echo "binding demonstration FAILED"; exit 1; }
