#!/bin/bash
# tlc.sh <module.tla> <cfg> <metadir> [extra tlc args]  -- run TLC with the project's JVM options
# and module path (spec/, spec/alg, spec/trace ...). Always under an outer timeout (TLC_TIMEOUT s).
V=$(cd "$(dirname "$0")/.." && pwd)
mod=$1; cfg=$2; meta=$3; shift 3
mkdir -p "$meta"
export JAVA_TOOL_OPTIONS="${JAVA_TOOL_OPTIONS:--Xss512m -Xmx${TLC_XMX:-3g} -XX:+UseParallelGC}"
CP=/opt/veriftools/tla/tla2tools.jar:/opt/veriftools/tla/CommunityModules-deps.jar
exec timeout ${TLC_TIMEOUT:-900} java -cp "$CP" \
  -DTLA-Library=$V/spec:$V/spec/alg:$V/spec/trace:$V/spec/mc:$V/spec/gen \
  tlc2.TLC -noGenerateSpecTE -metadir "$meta" -config "$cfg" "$@" "$mod"
