#!/usr/bin/env python3
"""regenerate MANIFEST.json from the table below (kept next to vprops.PROPS)"""
import json, os, sys
sys.path.insert(0, os.path.dirname(os.path.abspath(__file__)))
import vprops
props = [json.loads(l) for l in open('/verif/properties.jsonl')]
TV = 'TLA+ specification (GF2/Ops) + TLC trace validation of recorded calls of the real library'
DESC = {
 'C01': ('model_checking', 'every recorded call of every multiplication route (naive, M4RM with all k, Strassen with cutoffs incl. squaring, mp front ends, DJB) in several build configurations is judged by TLC against the GF(2) product of the TLA+ specification; the oracle itself is model-checked against declarative twins on all small matrices (MC_GF2)', TV + '; bounded TLC model check of the oracle'),
 'C02': ('model_checking', 'rank, unique RREF and row-space/REF predicates of the specification judge every recorded echelonisation call (all entry points, k, full, thresholds) on rank-profile families', TV),
 'C03': ('model_checking', 'relational PLE/PLUQ predicate (P*L*U*Q = A, rank, column rank profile, LAPACK ranges, zero outside L/U) judges every recorded factorisation incl. block-recursive shapes in the small-cache build; junk-filled P and Q on entry', TV),
 'C04': ('model_checking', 'T*X = B / X*T = B with the named unit triangle, T unchanged, junk in the opposite triangle; all four variants, wrappers, internal and Russian entry points', TV),
 'C05': ('model_checking', 'A*B = B*A = I for Four-Russians and naive inversion, unit-upper inverse in place for trtri', TV),
 'C06': ('model_checking', 'verdict = consistency of the padded system (rank criterion, cross-checked against an existential definition in MC_GF2) and A*X = B on success, incl. inconsistency only in padding rows and the factorisation-given variant', TV),
 'C07': ('model_checking', 'NULL iff full column rank; otherwise n x (n-r), A*K = 0, rank K = n-r', TV),
 'C08': ('model_checking', 'exact GF2 operators for add (all aliasing forms), transpose (all kernel size classes), copy, copy_row, submatrix, concat, stack, extract_u/l, set_ui with bit-exact comparison of all touched memory', TV),
 'C09': ('model_checking', 'all operation families re-run with every operand a window at sampled placements inside junk-filled parents; TLC checks result = result on the viewed block, and that no bit of any parent outside a written view changed', TV + ' with frame condition over raw parent memory'),
 'C10': ('model_checking', 'the op lists of C01-C08 are executed under three environments (fresh; allocator poisoning on hand-out/release; warmed-up block cache with recycled blocks filled with ones) and the recorded traces must be byte-identical and accepted by the same specification; the specification checks zero padding of every produced or changed owner after every call', TV + '; byte-wise comparison of traces across environments'),
 'C11': ('other', 'abort discipline (bad dimensions end in m4ri_die with operands untouched) and allocation balance (leak = 0, exact in the cache-less build) are judged by TLC on recorded calls; absence of undefined behaviour / out-of-bounds / misaligned accesses rests on clang ASan+UBSan observing the spec-enumerated executions of all families (owners and windows)', 'TLC trace validation of abort discipline and allocation balance + ASan/UBSan observation of the explored executions'),
 'C12': ('model_checking', 'the identical seeded op list of C01-C07 (random k, cutoffs) runs in 6 (quick) / 16 (thorough) build configurations (cache triples x SSE2 x caches x OpenMP); every trace is accepted by the one configuration-free specification, hence all configurations agree', TV + ' per build configuration'),
 'C14': ('model_checking', 'Alloc.tla models the block cache and the header cache; MC_Alloc checks storage disjointness, exact bookkeeping, no leak / no use after release, windows never release storage and nothing retained after cleanup over all interleavings up to depth 6 (quick) / 8 (thorough) with reachability witnesses for eviction, spill and unlink; TLC generates one history per distinct allocator state for the reduced-capacity build (hook H4) and the harness replays them on the real allocator; long random histories at the real capacities (>1024 live headers) are validated against the same specification, comparing the exact sequence of heap calls of every operation plus fresh-zero / disjointness / canary observables under heap poisoning', 'TLA+ state machine (Alloc.tla): bounded TLC model check + TLC-generated histories replayed on the real allocator + TLC trace validation'),
 'C18': ('model_checking', 'PNG round trips over all column residues, compression levels and comments; string constructor; JCF.tla token-level reader specification with TLC enumerating every valid file of small matrices, every single-token corruption and every truncation (6208 files) executed by the real reader (also under ASan/UBSan); foreign and malformed PNGs of every bit depth x colour type x interlace, truncated and with corrupted bytes', 'TLA+ JCF specification + TLC-generated files run through the real readers + TLC trace validation'),
 'C19': ('model_checking', 'MC_Gray is exhaustive for k = 1..16 and all 2^k entries (distinct values, one-bit steps, inc = index of the bit, table built by successive additions = sum of the rows selected by x); the code book dumped from the library and mzd_make_table outputs are compared with the specification by TLC; parity64, bit reversal, spread/shrink on complete single-bit bases plus random words; all 65 mask lengths x 64 offsets', 'exhaustive TLC model check (finite domain) + TLC validation of tables dumped from the real library'),
 'C20': ('fault_enumeration', 'for 42 scenarios (every operation family, each regime) and EVERY allocation request i of the scenario the i-th request fails in a fresh child; AllocFault.tla allows one continuation (controlled abort through m4ri_die); TLC checks that every position was injected and every fate is the allowed one', 'fault enumeration over every allocation request of every scenario, judged by TLC against AllocFault.tla'),
 'C13': ('model_checking', 'row/column operations, bit ranges and the five permutation applications judged by LAPACK-swap semantics of the specification; inverse laws and permutation-matrix laws model-checked for all permutations of length <= 4 (MC_GF2)', TV),
 'C15': ('model_checking', 'Threads.tla classifies every call by the globals it touches; NoRace holds for the thread-safe constants and is violated for the cached ones (witness). Binding: 2/4/8 (thorough: up to 16) threads run the seeded op lists of all sequential families on private matrices in the ThreadSanitizer build of the thread-safe configuration; zero race reports are required (a report must repeat on a re-run), every thread\'s trace is validated against the sequential specification, and the same harness on the cached build must show races (vacuity witness)', 'TLC model check of the interleaving model + TSan-observed concurrent executions + TLC validation of every thread\'s trace'),
 'C16': ('model_checking', 'OMP.tla: all interleavings of the four section tasks (read/write micro steps) and of the static-chunk row loop with private temporaries for T = 1..3 (thorough: 4) threads end in the sequential result; witnesses with a shared quadrant / shared temporary violate it. Binding: mp front ends, M4RM and elimination on > 512 rows for OMP_NUM_THREADS in {1,2,3,4,8} (thorough: up to 16) with nesting enabled; every trace validated by TLC and byte-identical to the sequential build\'s trace', 'TLC model check of the OpenMP constructs + TLC trace validation per thread count + byte-wise comparison with the sequential build'),
 'C17': ('model_checking', 'equal/cmp/is_zero/find_pivot (relational)/first_zero_row/read-after-write on one-bit-different pairs at every position class, owned and (through C09) windowed', TV),
}
checks = []
claimed = sorted(k for k in vprops.PROPS if k in DESC)
for pid in claimed:
    cat, text, tech = DESC[pid]
    checks.append({
        'property_id': pid, 'quick_cmd': 'bin/vcheck %s --tier quick' % pid, 'thorough_cmd': 'bin/vcheck %s --tier thorough' % pid,
        'evidence_file': 'evidence/%s.json' % pid, 'replay_cmd_template': 'bin/vcheck %s --replay {path}' % pid, 'engine': 'tlc',
        'level_claimed': {'category': cat, 'text': text, 'design_ref': 'DESIGN.md section 5 / %s' % pid},
        'level_note': 'trusts TLC evaluation of GF2.tla (self-checked by MC_GF2 against declarative twins, incl. the Java-overridden Xor/SetMin/SetMax), the harness raw-memory snapshots, and sampling of contents at word size 64',
        'technique': tech})
man = {
 'version': 1, 'setup_cmd': 'bin/setup.sh',
 'hooks': {'guard': 'M4RI_VERIF', 'enable': 'bin/build.sh compiles /repo/m4ri/*.c out of tree with -DM4RI_VERIF into /verif/build/<cfg>/ (every check rebuilds from the working tree)',
           'baseline_off_cmd': 'bin/baseline_off.sh', 'source_commits': [], 'add_only': True},
 'engines': [{'name': 'tlc', 'path': 'bin/vcheck', 'serves_properties': claimed,
              'kind_free_text': 'TLC (bounded model checking of spec/mc, trace validation with spec/trace against traces recorded from the real library by harness/)'}],
 'checks': checks,
 'not_applicable': [{'property_id': p['id'], 'reason': 'check not built yet (work in progress; DESIGN.md section 5 has the plan)'} for p in props if p['id'] not in claimed],
 'notes': 'exit 2 = the machinery failed (build/TLC/timeout), never a verdict. known_findings.json lists genuine defects (all repaired so far by fix: commits in /repo).'}
json.dump(man, open('/verif/MANIFEST.json', 'w'), indent=1)
print('claimed', claimed)
