"""vprops.py - per-property check definitions (which model checks, which driver families in which
build configurations, which rejection reasons belong to the property) and the generic runner."""
import json
import os
import re
import shutil
import time
from concurrent.futures import ThreadPoolExecutor

import vlib
from vlib import TraceJob, Infra, log, V

SMALL = 'small_sse_cache_seq'
HOST = 'host_sse_cache_seq'
NOSSE = 'mid_nosse_ts_seq'
ASAN = 'small_sse_cache_seq_asan'

ALG_REASONS = {'result', 'frame', 'stray', 'crash', 'unexpected_die', 'die_touched', 'unknown_op'}


BOUND_OPS = {'ple', 'pluq', '_ple', '_pluq', '_ple_naive', '_pluq_naive', '_ple_russian', '_pluq_russian', 'echelonize_m4ri', '_echelonize_m4ri', 'echelonize', 'top_echelonize_m4ri', 'echelonize_pluq', 'find_pivot',
             'solve_left', '_solve_left', 'kernel_left_pluq'}


def mcjob(module, cfg=None, workers=8, timeout=900, xmx='8g', witness=False):
    return dict(module=module, cfg=cfg or module, workers=workers, timeout=timeout, xmx=xmx, witness=witness)


def obs_jobs(tier, seed):
    """C17 quantifies over views and owned matrices: the observer family on owners and with every operand a window"""
    q = tier == 'quick'
    return simple_jobs('obs', 1600)(tier, seed) + [
        TraceJob(SMALL, 'obs', shards=2 if q else 8, args=['--cases', 400 if q else 6000, '--extra', 'views', '--seed', seed + 5], label='obs-views2@' + SMALL, timeout=3000),
        TraceJob(NOSSE, 'obs', shards=2 if q else 4, args=['--cases', 300 if q else 3000, '--extra', 'mixviews', '--seed', seed + 6], label='obs-mixviews@' + NOSSE, timeout=3000)]


def with_binding(jobsf, family, extra, qcases, tcases):
    """adds the model-binding job: the family in the 'tiny' cache configuration (recursions reachable on matrices small enough
    for TLC to evaluate the implementation-shaped model on them); only drift_* is read off that job"""
    def f(tier, seed):
        n = qcases if tier == 'quick' else tcases
        return jobsf(tier, seed) + [TraceJob('tiny_sse_cache_seq', family, shards=min(16, n), args=['--cases', n, '--extra', extra],
                                             label='%s-modelbinding@tiny' % family, timeout=3000, binding_only=True)]
    return f


def words2_mc(tier, kinds, wit=False):
    """word-level models on the larger region (MC_MzdWords2): column swaps in a row range, _mzd_compress_l (+ the F17 witness)"""
    js = [mcjob('MC_MzdWords2', 'MC_MzdWords2_' + k, workers=16, timeout=1800) for k in kinds]
    if wit:
        js.append(mcjob('MC_MzdWords2', 'MC_MzdWords2_wit_f17', workers=4, witness=True))
    if tier != 'quick':
        js.append(mcjob('MC_MzdWords2', 'MC_MzdWords2_w3', workers=16, timeout=3000))
    return js


def plerec_mc(tier):
    """block-recursive PLE/PLUQ driver (alg/PLERec.tla): both base-case pivot rules, reachability witnesses; thorough: more shapes"""
    js = [mcjob('MC_PLERec', 'MC_PLERec', workers=8), mcjob('MC_PLERec', 'MC_PLERec_last', workers=8),
          mcjob('MC_PLERec', 'MC_PLERec_wit_NoRecursion', workers=2, witness=True), mcjob('MC_PLERec', 'MC_PLERec_wit_NoDeep', workers=4, witness=True)]
    if tier != 'quick':
        js += [mcjob('MC_PLERec', 'MC_PLERec_full', workers=12, timeout=3000), mcjob('MC_PLERec', 'MC_PLERec_deep', workers=12, timeout=3000)]
    # the base case of every PLE call (alg/PLERussian.tla): word size 2 exhaustively, word sizes 4 and 6 with 2 and 3 tables on patterns
    js += [mcjob('MC_PLERussian', 'MC_PLERussian', workers=8), mcjob('MC_PLERussian', 'MC_PLERussian_k2', workers=4),
           mcjob('MC_PLERussian', 'MC_PLERussian_k2n3', workers=4),
           mcjob('MC_PLERussian', 'MC_PLERussian_wit_window', workers=2, witness=True), mcjob('MC_PLERussian', 'MC_PLERussian_wit_NoA2', workers=2, witness=True),
           mcjob('MC_PLERussian', 'MC_PLERussian_wit_NoEmptyBlock', workers=2, witness=True)]
    if tier != 'quick':
        js.append(mcjob('MC_PLERussian', 'MC_PLERussian_full', workers=12, timeout=3000))
    return js


def with_huge(jobsf, family, qshards, tshards):
    """plus a few very large, very sparse operands (dimension >= 32768: the automatic table parameter reaches its cap there)"""
    def f(tier, seed):
        q = tier == 'quick'
        return jobsf(tier, seed) + [TraceJob(SMALL, family, shards=qshards if q else tshards, args=['--cases', 1, '--extra', 'huge,nosweep', '--seed', seed + 77],
                                             label='%s-huge@%s' % (family, SMALL), timeout=3400)]
    return f


def echelonpluq_mc(tier):
    """mzd_echelonize_pluq composed from the PLE/PLUQ and TRSM models (alg/EchelonPluq.tla): both pivot rules, one witness per branch on r"""
    js = [mcjob('MC_EchelonPluq', 'MC_EchelonPluq', workers=8), mcjob('MC_EchelonPluq', 'MC_EchelonPluq_last', workers=8)]
    js += [mcjob('MC_EchelonPluq', 'MC_EchelonPluq_wit_' + w, workers=2, witness=True) for w in ('NoAligned', 'NoCopy', 'NoCopyWindow')]
    # the density switch of mzd_echelonize (alg/EchelonHybrid.tla): hand-over at every column, to the PLUQ route, top reduction after it
    js += [mcjob('MC_EchelonHybrid', 'MC_EchelonHybrid_' + c, workers=8) for c in ('km1', 'km2', 'gap1')]
    js += [mcjob('MC_EchelonHybrid', 'MC_EchelonHybrid_wit_' + w, workers=2, witness=True) for w in ('NoMidWordHandover', 'NoHandoverWithPivotsAbove')]
    if tier != 'quick':
        js.append(mcjob('MC_EchelonPluq', 'MC_EchelonPluq_full', workers=12, timeout=3000))
        js.append(mcjob('MC_EchelonHybrid', 'MC_EchelonHybrid_full', workers=12, timeout=3000))
    return js


def c01_jobs(tier, seed):
    if tier == 'quick':
        return [TraceJob(SMALL, 'mul', shards=12, args=['--cases', 720]),
                TraceJob(NOSSE, 'mul', shards=4, args=['--cases', 240]),
                TraceJob(SMALL, 'mul', shards=4, args=['--cases', 200, '--seed', seed + 9, '--extra', 'views,nosweep'], label='mul-views@' + SMALL),
                # C01 quantifies over OpenMP on/off: the multi-core front ends only exist in an OpenMP build
                TraceJob('small_sse_cache_omp', 'mul', shards=6, args=['--cases', 170, '--seed', seed + 10], env={'OMP_NUM_THREADS': '3'}, label='mul@small_omp')]
    return [TraceJob(SMALL, 'mul', shards=32, timeout=3400), TraceJob(HOST, 'mul', shards=16, args=['--cases', 1500], timeout=3400),
            TraceJob(NOSSE, 'mul', shards=16, args=['--cases', 1500], timeout=3400),
            TraceJob(SMALL, 'mul', shards=32, timeout=3400, args=['--seed', seed + 1000], label='mul@%s#s2' % SMALL),
            TraceJob('c128_sse_cache_seq', 'mul', shards=16, args=['--cases', 3000, '--seed', seed + 3000], timeout=3400, label='mul@c128'),
            TraceJob('c256_nosse_cache_seq', 'mul', shards=16, args=['--cases', 3000, '--seed', seed + 4000], timeout=3400, label='mul@c256')]


def simple_jobs(family, qcases, qshards=12, tshards=32, nosse_frac=3, extra=None):
    """quick: small-cache build (thresholds reachable) + a no-SSE2/thread-safe/mid-cache build on a fraction;
    thorough: family defaults in small, host and nosse builds"""
    ex = extra or []

    def f(tier, seed):
        # the same family with every operand a window (a fraction of the cases): what a property says about an operation it says
        # about the operation on views too; window-specific defects then show in the check of the property they break, not only in C09
        vw = ['--extra', 'views,nobig,nosweep'] if not ex else [ex[0], ex[1] + ',views,nobig,nosweep']
        if tier == 'quick':
            return [TraceJob(SMALL, family, shards=qshards, args=['--cases', qcases] + ex),
                    TraceJob(NOSSE, family, shards=max(2, qshards // nosse_frac), args=['--cases', max(40, qcases // nosse_frac)] + ex),
                    TraceJob(SMALL, family, shards=max(2, qshards // 3), args=['--cases', max(60, qcases // 4), '--seed', seed + 9] + vw, label='%s-views@%s' % (family, SMALL))]
        return [TraceJob(SMALL, family, shards=tshards // 2, timeout=3400, args=['--seed', seed + 9] + vw, label='%s-views@%s' % (family, SMALL)),
                TraceJob(SMALL, family, shards=tshards, timeout=3400, args=ex), TraceJob(HOST, family, shards=tshards // 2, timeout=3400, args=ex),
                TraceJob(NOSSE, family, shards=tshards // 2, timeout=3400, args=ex),
                # a second and third independent sample of the family's case space in the small-cache build, and one in another cache triple
                TraceJob(SMALL, family, shards=tshards, timeout=3400, args=ex + ['--seed', seed + 1000], label='%s@%s#s2' % (family, SMALL)),
                TraceJob(SMALL, family, shards=tshards, timeout=3400, args=ex + ['--seed', seed + 2000], label='%s@%s#s3' % (family, SMALL)),
                TraceJob('c128_sse_cache_seq', family, shards=tshards // 2, timeout=3400, args=ex + ['--seed', seed + 3000], label='%s@c128' % family)]
    return f


GEN_ASSUME = ['TLC evaluates GF2.tla operators correctly (checked against declarative twins by MC_GF2)',
              'the harness logs the raw memory of operands truthfully (memcmp snapshots)',
              'contents at 64-bit word size are sampled (structured families + seeded random), not exhaustive']


def gf2_mc(tier):
    return [mcjob('MC_GF2', workers=16, timeout=1200)]


def words_mc(*cfgs):
    """MC_GF2 plus the word-level masking model (alg/MzdWords.tla) for the given configurations"""
    def f(tier):
        return gf2_mc(tier) + [mcjob('MC_MzdWords', c, workers=16, timeout=2400) for c in cfgs] + \
            ([mcjob('MC_MzdWords', 'MC_MzdWords_full', workers=16, timeout=7000, xmx='16g')] if tier == 'thorough' and 'MC_MzdWords_c08_w3' in cfgs else [])
    return f


def alg(jobs, reasons=ALG_REASONS, mc=None):
    return dict(level='model_checking', reasons=reasons, jobs=jobs, mc=mc or gf2_mc, assumptions=GEN_ASSUME)


ALL_FAMS = [('mul', 480), ('move', 800), ('rowops', 640), ('obs', 640), ('elim', 320), ('ple', 240), ('trsm', 240), ('inv', 160), ('solve', 240), ('kernel', 160)]


def views_jobs(tier, seed):
    """C09: every family with every matrix operand created as a window at a random placement inside a
    larger junk-filled parent (row offset, odd/even word offset, parent wider or not, rows below)"""
    jobs = []
    for fam, n in ALL_FAMS:
        if tier == 'quick':
            jobs.append(TraceJob(SMALL, fam, shards=2 if n < 400 else 3, args=['--cases', n, '--extra', 'views,nobig'], label=fam + '-views@' + SMALL))
            # owners and windows mixed among the operands of one call (different row alignments, masked and unmasked last words)
            jobs.append(TraceJob(SMALL, fam, shards=1, args=['--cases', max(80, n // 3), '--extra', 'mixviews,nobig,nosweep', '--seed', 11 + seed], label=fam + '-mixviews@' + SMALL))
            if fam in ('ple', 'elim', 'mul', 'trsm', 'solve'):
                # wide views (rows of 6..11 words): some kernels only touch a last word when there are words to the right of a block
                jobs.append(TraceJob(SMALL, fam, shards=1, args=['--cases', 48, '--maxdim', 700, '--tier', 'thorough', '--extra', 'views,nobig,nosweep', '--seed', 7 + seed],
                                     label=fam + '-wideviews@' + SMALL))
        else:
            jobs.append(TraceJob(SMALL, fam, shards=8, args=['--cases', n * 6, '--extra', 'views,nobig'], label=fam + '-views@' + SMALL, timeout=3400))
            jobs.append(TraceJob(NOSSE, fam, shards=4, args=['--cases', n * 2, '--extra', 'views,nobig'], label=fam + '-views@' + NOSSE, timeout=3400))
            jobs.append(TraceJob(SMALL, fam, shards=4, args=['--cases', n * 2, '--extra', 'mixviews,nobig', '--seed', 11 + seed], label=fam + '-mixviews@' + SMALL, timeout=3400))
    # the block-recursive PLE (Schur complement, L compression) applied to windows: only reachable with the big shapes
    jobs.append(TraceJob(SMALL, 'ple', shards=5 if tier == 'quick' else 16, args=['--extra', 'views,onlybig'], label='ple-bigviews@' + SMALL, timeout=3400, xmx='6g'))
    return jobs


CAP = 'small_sse_cache_seq_cap'
TS = 'mid_nosse_ts_seq'


def tla_hist_to_json(text):
    """<<[h |-> 0, op |-> "init", sz |-> "big"], ...>> -> JSON list"""
    out = []
    for rec in re.findall(r'\[([^\]]*)\]', text):
        d = {}
        for fld in rec.split(','):
            k, _, v = fld.partition('|->')
            v = v.strip()
            d[k.strip()] = v.strip('"') if v.startswith('"') else int(v)
        out.append(d)
    return json.dumps(out, separators=(',', ':'))


def c14_prepare(tier, seed, rundir):
    """spec -> code: TLC enumerates one shortest history per distinct allocator state (Gen_Alloc, constants of the
    reduced-capacity build); the histories are replayed on the real allocator by the 'alloc' family"""
    depth = 5 if tier == 'thorough' else 4
    cfg = open(V + '/spec/gen/Gen_Alloc.cfg').read().replace('Depth = 5', 'Depth = %d' % depth).replace('INVARIANT Emit\n', '')
    cpath = os.path.join(rundir, 'Gen_Alloc_run.cfg')
    open(cpath, 'w').write(cfg)
    dump = os.path.join(rundir, 'gen_alloc.dump')
    meta = os.path.join(rundir, 'meta_gen')
    rc, o = vlib.sh([V + '/bin/tlc.sh', V + '/spec/gen/Gen_Alloc.tla', cpath, meta, '-workers', '8', '-dump', dump],
                    env={'JAVA_TOOL_OPTIONS': '-Xss512m -Xmx8g -XX:+UseParallelGC', 'TLC_TIMEOUT': '1500'}, cwd=V + '/spec/gen', timeout=1600)
    shutil.rmtree(meta, ignore_errors=True)
    (gen, dist), viol = vlib.parse_mc(o)
    if rc != 0 or viol or dist == 0:
        raise Infra('Gen_Alloc failed (rc=%d, %s):\n%s' % (rc, viol, o[-2000:]))
    hist = os.path.join(rundir, 'alloc_histories.ndjson')
    n = 0
    with open(dump) as f, open(hist, 'w') as g:
        block = []
        for line in f:
            if line.startswith('State '):
                block = []
            block.append(line.rstrip('\n'))
            if line.strip() == '' and block:
                txt = ' '.join(block)
                i = txt.find('/\\ hist = ')
                if i >= 0:
                    h = txt[i + 10:]
                    j = h.find('/\\ ', 1)
                    h = h if j < 0 else h[:j]
                    js = tla_hist_to_json(h)
                    if js != '[]':
                        g.write(js + '\n')
                        n += 1
                block = []
    os.remove(dump)
    log('[gen] Gen_Alloc depth<%d: %d distinct allocator states -> %d histories to replay' % (depth, dist, n))
    return {'generated_histories': n, 'generator_states': dist, 'generator_depth': depth}


def c14_jobs(tier, seed, rundir):
    hist = os.path.join(rundir, 'alloc_histories.ndjson')
    q = tier == 'quick'
    return [TraceJob(CAP, 'alloc', shards=8, args=['--extra', 'hist=' + hist], spec='TraceAlloc', label='alloc-replay@' + CAP, timeout=3000),
            TraceJob(SMALL, 'alloc', shards=4 if q else 8, args=['--cases', 8 if q else 48], spec='TraceAlloc', label='alloc-random@' + SMALL, timeout=3000),
            TraceJob(CAP, 'alloc', shards=2 if q else 4, args=['--cases', 4 if q else 24], spec='TraceAlloc', label='alloc-random@' + CAP, timeout=3000),
            TraceJob(TS, 'alloc', shards=2 if q else 4, args=['--cases', 4 if q else 24], spec='TraceAlloc', label='alloc-random@' + TS, timeout=3000)]


def c14_mc(tier):
    d = 'MC_Alloc_quick' if tier == 'quick' else 'MC_Alloc'
    return [mcjob('MC_Alloc', d, workers=16, timeout=2400, xmx='16g'),
            mcjob('MC_Alloc', 'MC_Alloc_wit_evict', workers=8, witness=True), mcjob('MC_Alloc', 'MC_Alloc_wit_spill', workers=8, witness=True),
            mcjob('MC_Alloc', 'MC_Alloc_wit_unlink', workers=8, witness=True)]


def c20_jobs(tier, seed):
    q = tier == 'quick'
    jobs = [TraceJob(SMALL, 'fault', shards=8, spec='TraceFault', label='fault@' + SMALL, timeout=3000),
            TraceJob(TS, 'fault', shards=8, spec='TraceFault', label='fault@' + TS, timeout=3000)]
    if not q:
        jobs += [TraceJob(ASAN, 'fault', shards=8, spec='TraceFault', label='fault@' + ASAN, timeout=3400),
                 TraceJob('small_sse_cache_omp', 'fault', shards=4, spec='TraceFault', label='fault@omp', timeout=3400, env={'OMP_NUM_THREADS': '2'})]
    return jobs


def c19_jobs(tier, seed):
    return [TraceJob(SMALL, 'kernels', shards=12, label='kernels@' + SMALL), TraceJob(NOSSE, 'kernels', shards=4, label='kernels@' + NOSSE)]


def c18_prepare(tier, seed, rundir):
    """TLC enumerates all valid JCF files of small matrices with all single-token corruptions and truncations"""
    meta = os.path.join(rundir, 'meta_jcf')
    rc, o = vlib.sh([V + '/bin/tlc.sh', V + '/spec/gen/Gen_JCF.tla', V + '/spec/gen/Gen_JCF.cfg', meta, '-workers', '1'],
                    env={'JAVA_TOOL_OPTIONS': '-Xss512m -Xmx4g', 'TLC_TIMEOUT': '600'}, cwd=V + '/spec/gen', timeout=700)
    shutil.rmtree(meta, ignore_errors=True)
    cases = []
    for line in o.splitlines():
        if line.startswith('<<"CASE", "'):
            cases.append(line[len('<<"CASE", "'):-3].replace('\\"', '"'))
    if rc != 0 or not cases:
        raise Infra('Gen_JCF failed:\n' + o[-2000:])
    cases = sorted(set(cases))
    with open(os.path.join(rundir, 'jcf_cases.ndjson'), 'w') as f:
        f.write('\n'.join(cases) + '\n')
    log('[gen] Gen_JCF: %d files (valid, every single-token corruption, every truncation)' % len(cases))
    return {'generated_jcf_files': len(cases)}


def c18_jobs(tier, seed, rundir):
    ex = ['--extra', 'jcf=' + os.path.join(rundir, 'jcf_cases.ndjson')]
    if tier == 'quick':
        return [TraceJob(SMALL, 'io', shards=8, args=ex, label='io@' + SMALL), TraceJob(ASAN, 'io', shards=8, args=ex, label='io@' + ASAN)]
    return [TraceJob(SMALL, 'io', shards=8, args=ex, label='io@' + SMALL, timeout=3000), TraceJob(ASAN, 'io', shards=16, args=ex, label='io@' + ASAN, timeout=3000),
            TraceJob(NOSSE, 'io', shards=8, args=ex, label='io@' + NOSSE, timeout=3000)]


def norm_trace_lines(path):
    """trace lines with the fields that legitimately differ between environments removed"""
    out = []
    with open(path) as f:
        for ln in f:
            if ln.startswith('{"e":"cfg"'):
                continue
            if ln.startswith('{"e":"op"'):
                ln = re.sub(r',"leak":-?\d+', '', ln)
                ln = re.sub(r',"fn":\[[^\]]*\]', '', ln)
            out.append(ln)
    return out


def c10_post_drive(prop, pairs, traces, rundir, seed, tier):
    """purity: the same seeded cases executed in different environments (fresh process; allocator poisoning blocks
    on hand-out and on release; warmed-up block cache whose recycled blocks were filled with ones) must record
    identical traces - operands, results, return values, permutations - byte for byte"""
    groups = {}
    for (job, shard), tr in zip(pairs, traces):
        fam_cfg = job.label.split('#')[0]
        groups.setdefault((fam_cfg, shard), []).append((job, tr))
    out = []
    ncmp = 0
    for (fam_cfg, shard), lst in sorted(groups.items()):
        base_job, base_tr = lst[0]
        base = norm_trace_lines(base_tr)
        for job, tr in lst[1:]:
            other = norm_trace_lines(tr)
            ncmp += 1
            if other == base:
                continue
            k = 0
            while k < min(len(base), len(other)) and base[k] == other[k]:
                k += 1
            # nearest enclosing op/call line for the report
            j = k
            while j >= 0 and j < len(other) and not (other[j].startswith('{"e":"op"') or other[j].startswith('{"e":"call"')):
                j += 1
            evl = other[j] if 0 <= j < len(other) else '{}'
            try:
                ev = json.loads(evl)
            except ValueError:
                ev = {}
            os.makedirs(V + '/replays', exist_ok=True)
            path = '%s/replays/%s_impure_%s_%d.txt' % (V, prop, job.label.replace('/', '_').replace('@', '_').replace('#', '_'), shard)
            with open(path, 'w') as f:
                f.write('environment %s differs from %s at normalised line %d\nbase : %s\nother: %s\nevent: %s\n' % (
                    job.label, base_job.label, k + 1, base[k][:2000] if k < len(base) else '<eof>', other[k][:2000] if k < len(other) else '<eof>', evl[:2000]))
            out.append({'replay': path, 'detail': 'result depends on the environment: %s vs %s, op %s case %s' % (job.label, base_job.label, ev.get('op'), ev.get('case')),
                        'sig': {'op': ev.get('op', '?'), 'cfg': job.cfg, 'family': job.family, 'reasons': ['impure']}})
    log('[purity] %d environment pairs compared byte-wise, %d differ' % (ncmp, len(out)))
    return out


C10_FAMS = [('mul', 360), ('move', 480), ('rowops', 320), ('obs', 320), ('elim', 240), ('ple', 200), ('trsm', 200), ('inv', 120), ('solve', 200), ('kernel', 120)]


def gen_store_programs(tier, seed, rundir, nq=160, nt=1600):
    """spec -> code: TLC simulates spec/Store.tla (shapes and aliasing only: ABSTRACT) and every behaviour becomes one program
    for the 'prog' family of the harness"""
    n = nq if tier == 'quick' else nt
    simdir = os.path.join(rundir, 'sim_store')
    shutil.rmtree(simdir, ignore_errors=True)
    os.makedirs(simdir)
    meta = os.path.join(rundir, 'meta_gen_store')
    workers = 4
    rc, o = vlib.sh([V + '/bin/tlc.sh', V + '/spec/gen/Gen_Store.tla', V + '/spec/gen/Gen_Store.cfg', meta, '-workers', str(workers),
                     '-simulate', 'file=%s/tr,num=%d' % (simdir, (n + workers - 1) // workers), '-depth', '26', '-seed', str(1000 + seed)],
                    env={'TLC_TIMEOUT': '1500'}, cwd=V + '/spec/gen', timeout=1600)
    shutil.rmtree(meta, ignore_errors=True)
    files = sorted(os.listdir(simdir))
    if not files:
        raise Infra('Gen_Store produced no behaviour (rc=%d):\n%s' % (rc, o[-2000:]))
    progs = os.path.join(rundir, 'store_programs.ndjson')
    ops = {}
    with open(progs, 'w') as g:
        for fn in files:
            t = open(os.path.join(simdir, fn)).read()
            i = t.rfind('hist = ')
            if i < 0:
                continue
            js = tla_hist_to_json(t[i:])
            for st in json.loads(js):
                ops[st['op']] = ops.get(st['op'], 0) + 1
            g.write(js + '\n')
    shutil.rmtree(simdir, ignore_errors=True)
    log('[gen] Gen_Store: %d behaviours of %d steps -> programs for the prog family (%s)' % (len(files), 24, ', '.join('%s %d' % kv for kv in sorted(ops.items()))))
    return {'generated_programs': len(files), 'program_steps_by_operation': ops}


def c10_prepare(tier, seed, rundir):
    return gen_store_programs(tier, seed, rundir)


def prog_jobs(tier, rundir, cfg=None):
    """the TLC-generated programs executed on the real library: walked with the store of Store.tla (TraceStore) and judged
    call by call (TraceOps); three allocator environments (also compared byte-wise by the purity check)"""
    progs = os.path.join(rundir, 'store_programs.ndjson')
    cfg = cfg or SMALL
    sh = 4 if tier == 'quick' else 8
    return [TraceJob(cfg, 'prog', shards=sh, args=['--env', env, '--extra', 'prog=' + progs], spec=spec, label='prog@%s#env%d' % (cfg, env), timeout=3000)
            for env, spec in ((0, 'TraceStore'), (3, 'TraceOps'), (7, 'TraceStore'))]


def c10_jobs(tier, seed, rundir):
    jobs = prog_jobs(tier, rundir)
    q = tier == 'quick'
    # the block-recursive factorisation (only reachable with the big shapes) with junk-filled P and Q in two environments
    for env in (0, 3):
        jobs.append(TraceJob(SMALL, 'ple', shards=5 if q else 16, args=['--env', env, '--extra', 'onlybig'], label='ple-big@%s#env%d' % (SMALL, env), timeout=3400, xmx='6g'))
    for fam, n in C10_FAMS:
        for env in (0, 3, 7):
            jobs.append(TraceJob(SMALL, fam, shards=1 if q else 4, args=['--cases', n if q else n * 8, '--env', env, '--extra', 'nobig,nosweep'],
                                 label='%s@%s#env%d' % (fam, SMALL, env), timeout=3400))
        if not q:
            for env in (0, 7):
                jobs.append(TraceJob(HOST, fam, shards=2, args=['--cases', n * 2, '--env', env, '--extra', 'nobig,nosweep'], label='%s@%s#env%d' % (fam, HOST, env), timeout=3400))
    return jobs


ALL_REASONS = ALG_REASONS | {'padding', 'leak', 'no_die_on_bad_dimensions'}


def c11_jobs(tier, seed):
    """every family (owners and windows) under ASan+UBSan; bad-dimension calls; exact leak accounting in the cache-less build"""
    jobs = []
    q = tier == 'quick'
    for fam, n in ALL_FAMS:
        k = n // 4 if q else n * 2
        jobs.append(TraceJob(ASAN, fam, shards=1 if q else 4, args=['--cases', k, '--extra', 'nobig'], label='%s@asan' % fam, timeout=3400))
        jobs.append(TraceJob(ASAN, fam, shards=1 if q else 4, args=['--cases', k, '--extra', 'views,nobig'], label='%s-views@asan' % fam, timeout=3400))
    jobs.append(TraceJob(ASAN, 'baddims', shards=1 if q else 4, args=['--cases', 300 if q else 3000], label='baddims@asan', timeout=3400))
    # word-level kernels and m4ri_word_to_str (documented buffer size) under the sanitizers
    jobs.append(TraceJob(ASAN, 'kernels', shards=2 if q else 4, args=['--cases', 40 if q else 300], label='kernels@asan', timeout=3400))
    jobs.append(TraceJob(SMALL, 'baddims', shards=1 if q else 4, args=['--cases', 300 if q else 3000, '--extra', 'views'], label='baddims-views@' + SMALL, timeout=3400))
    # very large sparse operands: the automatically chosen parameters at their caps (shift counts, table sizes) under the sanitizers
    jobs.append(TraceJob(ASAN, 'inv', shards=1, args=['--cases', 1, '--extra', 'huge,nosweep'], label='inv-huge@asan', timeout=3400))
    jobs.append(TraceJob(ASAN, 'elim', shards=4, args=['--cases', 1, '--extra', 'huge,nosweep'], label='elim-huge@asan', timeout=3400))
    # the multi-core front ends are checked wrappers too (OpenMP build only)
    jobs.append(TraceJob('small_sse_cache_omp', 'baddims', shards=1 if q else 2, args=['--cases', 300 if q else 2000], label='baddims@small_sse_cache_omp', timeout=3400, env={'OMP_NUM_THREADS': '3'}))
    for fam, n in ALL_FAMS:   # leak accounting (exact without the allocator caches)
        jobs.append(TraceJob(TS, fam, shards=1 if q else 2, args=['--cases', n // 4 if q else n, '--extra', 'nobig'], label='%s-leak@%s' % (fam, TS), timeout=3400))
    return jobs


C12_CFGS_Q = [SMALL, HOST, NOSSE, 'small_nosse_cache_seq', 'mid_sse_ts_omp', 'host_nosse_cache_omp', 'c128_sse_cache_seq', 'ceq_nosse_cache_seq']
C12_CFGS_T = C12_CFGS_Q + ['mid_sse_cache_seq', 'small_sse_ts_seq', 'host_sse_ts_seq', 'small_sse_cache_omp', 'host_sse_cache_omp', 'mid_nosse_cache_seq',
                           'small_nosse_ts_omp', 'host_nosse_ts_seq', 'mid_nosse_ts_omp', 'small_nosse_ts_seq', 'c256_nosse_cache_seq', 'c4m_sse_ts_omp', 'c128_nosse_ts_omp', 'c256_sse_cache_omp', 'cl1_sse_cache_seq', 'ceq_sse_ts_omp']
C12_FAMS = [('mul', 240), ('elim', 160), ('ple', 120), ('trsm', 120), ('inv', 80), ('solve', 120), ('kernel', 80)]


def c12_jobs(tier, seed):
    """the identical seeded op list (C01-C07) in every build configuration; all are judged by the one
    configuration-free oracle, so they agree with each other"""
    jobs = []
    q = tier == 'quick'
    for cfg in (C12_CFGS_Q if q else C12_CFGS_T):
        for fam, n in C12_FAMS:
            # the block-recursive PLE is only entered in the small-cache configurations at these sizes: keep its big shapes there
            ex = 'nosweep' if (fam == 'ple' and cfg.startswith(('small', 'c128'))) or not q else 'nobig,nosweep'
            if not q and fam in ('solve', 'kernel') and not cfg.startswith('small'):
                ex = 'nobig,nosweep'   # their block-recursive shapes only recurse in the small-cache configurations (and cost TLC the most)
            if q and fam == 'mul' and cfg.endswith('_omp'):
                ex = 'nobig'      # the Strassen shape sweep exercises the multi-core front ends in the OpenMP configurations
            jobs.append(TraceJob(cfg, fam, shards=(2 if fam == 'ple' and cfg.startswith(('small', 'c128')) else 1) if q else 2, args=['--cases', n if q else n * 4, '--extra', ex],
                                 label='%s@%s' % (fam, cfg), timeout=3400, env={'OMP_NUM_THREADS': '3'}))
    return jobs


TSAN_TS = 'mid_sse_ts_seq_tsan'
TSAN_CACHED = 'mid_sse_cache_seq_tsan'


def c15_jobs(tier, seed):
    q = tier == 'quick'
    jobs = [TraceJob(TSAN_TS, 'threads', shards=1, args=['--extra', 'nthreads=%d' % k], label='threads%d@%s' % (k, TSAN_TS), threads=k, tsan=True, timeout=3000)
            for k in ((2, 4, 8) if q else (2, 3, 4, 8, 16))]
    jobs.append(TraceJob('small_nosse_ts_seq_tsan', 'threads', shards=1, args=['--extra', 'nthreads=4'], label='threads4@small_nosse_ts_seq_tsan', threads=4, tsan=True, timeout=3000))
    # witness: the same harness on the default (cached) build must show races, otherwise the observation is vacuous
    jobs.append(TraceJob(TSAN_CACHED, 'threads', shards=1, args=['--extra', 'nthreads=4'], label='threads4-witness@' + TSAN_CACHED, threads=4, tsan=True, expect_races=True, timeout=3000))
    return jobs


def c15_mc(tier):
    return [mcjob('MC_Threads', 'MC_Threads_ts', workers=4), mcjob('MC_Threads', 'MC_Threads_cached', workers=4, witness=True)]


OMPCFG = 'mid_sse_cache_omp'
OMPSEQ = 'mid_sse_cache_seq'


def c16_jobs(tier, seed):
    q = tier == 'quick'
    n = 36 if q else 240
    sh = 2 if q else 4
    jobs = [TraceJob(OMPSEQ, 'omp', shards=sh, args=['--cases', n], label='omp@mid#seq', timeout=3400)]
    for t in ((1, 2, 3, 4, 8) if q else (1, 2, 3, 4, 5, 8, 16)):
        jobs.append(TraceJob(OMPCFG, 'omp', shards=sh, args=['--cases', n], label='omp@mid#t%d' % t, timeout=3400,
                             env={'OMP_NUM_THREADS': str(t), 'OMP_NESTED': 'TRUE', 'OMP_MAX_ACTIVE_LEVELS': '3', 'OMP_DYNAMIC': 'FALSE'}))
    return jobs


def c16_mc(tier):
    ts = ['t1', 't2', 't3'] + ([] if tier == 'quick' else ['t4'])
    return [mcjob('MC_OMP', 'MC_OMP_' + t, workers=16, timeout=3000, xmx='16g') for t in ts] + \
           [mcjob('MC_OMP', 'MC_OMP_wit_quadrant', workers=16, witness=True), mcjob('MC_OMP', 'MC_OMP_wit_shared_tmp', workers=16, witness=True)]


PROPS = {
    'C16': dict(level='model_checking', reasons=ALG_REASONS, jobs=c16_jobs, mc=c16_mc, post_drive=c10_post_drive,
                assumptions=['the interleaving model (OMP.tla) covers all schedules of 4 sections / a static-chunk row loop for 1..4 threads at small bounds',
                             'on the real code schedules are whatever libgomp and the OS produce for OMP_NUM_THREADS in {1,2,3,4,5,8,16}; each configuration is compared byte-wise with the sequential build '
                             '(libgomp is not TSan-instrumented, so no race detector is used here: this is the weakest binding, DESIGN.md section 6)']),
    'C15': dict(level='model_checking', reasons=ALG_REASONS | {'padding'}, jobs=c15_jobs, mc=c15_mc, skip_reject_cfgs=[TSAN_CACHED],
                assumptions=['schedules on the real code are those the OS produces; ThreadSanitizer (happens-before) reports a race independently of lucky timing, but only for code that ran',
                             'a report must repeat on one re-run before it is reported', 'the model classifies calls by the globals they touch; the binding is the TSan-observed execution of every routine by >= 2 threads']),
    'C10': dict(level='model_checking', reasons={'padding', 'result', 'crash', 'unexpected_die', 'unknown_op', 'state_before_step', 'state_after_step', 'observer_on_state', 'relation_on_state'},
                prepare=c10_prepare, jobs=c10_jobs, mc=lambda tier: [mcjob('MC_Store', workers=12, timeout=1800)], post_drive=c10_post_drive,
                assumptions=GEN_ASSUME + ['environments: fresh process; allocator wrapper poisoning every block on hand-out (0xA5) and on release (0x5A); '
                                          'warm-up pass of the same case followed by filling every cached block with ones; destinations pre-filled with random data']),
    'C11': dict(level='other', reasons=ALL_REASONS, jobs=c11_jobs, mc=lambda tier: [],
                assumptions=['undefined behaviour and out-of-bounds accesses are observed by clang ASan+UBSan instrumentation on the explored executions (TLA+ has no notion of C object bounds)',
                             'leak accounting is exact only in the thread-safe (cache-less) build']),
    'C12': dict(level='model_checking', reasons=ALG_REASONS, jobs=c12_jobs, mc=lambda tier: [], assumptions=GEN_ASSUME + [
        'configurations are a finite set of builds (cache triples host/small/mid x sse2 x caches x openmp), not all triples']),
    'C18': dict(level='model_checking', reasons=ALG_REASONS | {'padding'}, prepare=c18_prepare, jobs=c18_jobs, mc=lambda tier: [],
                assumptions=['libpng itself is trusted; process termination by libpng\'s error path counts as rejection (the property allows termination)',
                             'a truncated but syntactically readable JCF file may be rejected or read up to the cut (both allowed); index errors must be rejected',
                             'sanitizer findings are observed in the ASan/UBSan build only']),
    'C19': dict(level='model_checking', reasons=ALG_REASONS | {'padding'}, jobs=c19_jobs, mc=lambda tier: [mcjob('MC_Gray', workers=16)],
                coverage_extra={'exhaustive': True, 'exhaustive_scope': 'MC_Gray enumerates every k = 1..16 and every one of the 2^k entries; the code book dumped from the library is compared entry by entry for all k; masks: all 65 lengths x all admissible offsets; parity/bit reversal: complete single-bit basis (linear maps)'},
                assumptions=['MC_Gray is exhaustive for k = 1..16 (the complete code book)', 'parity, bit reversal, spread/shrink are checked on complete single-bit bases plus random words',
                             'the dumped tables are the ones the library uses (read from m4ri_codebook after m4ri_init)']),
    'C20': dict(level='fault_enumeration', reasons={'fault_free_run_failed', 'not_controlled_abort', 'positions_not_all_injected', 'crash'}, jobs=c20_jobs,
                mc=lambda tier: [mcjob('MC_AllocFault', workers=4)],
                assumptions=['only allocation requests issued by m4ri code (malloc/calloc/realloc/posix_memalign at link level) are failed; libpng/libc internal allocations are not',
                             'one failure per run (the property speaks of a single failed allocation)']),
    'C14': dict(level='model_checking', reasons={'fresh_not_zero_or_live_corrupted', 'storage_shared', 'live_matrix_corrupted', 'free_of_non_live_pointer',
                                                 'memory_retained', 'harness_precondition', 'crash'},
                # conformance of the cache POLICY to Alloc.tla: a mismatch is model drift (MC_Alloc's results no longer transfer), not a C14 violation
                drift={'heap_calls', 'spec_invariant', 'model_retained'},
                prepare=c14_prepare, jobs=c14_jobs, mc=c14_mc,
                assumptions=['the link-time malloc/free wrappers see every heap call of the m4ri objects', 'header-cache geometry (64 headers per block) is a constant of the code',
                             'random histories are sampled; generated histories are exhaustive up to the stated depth for the reduced-capacity build']),
    'C09': dict(level='model_checking', reasons=ALG_REASONS | {'padding'}, jobs=views_jobs, mc=lambda tier: [mcjob('MC_MzdWords', c, workers=16, timeout=2400) for c in ('MC_MzdWords_c08_w3', 'MC_MzdWords_c13_w3')] + words2_mc(tier, ('cl',), wit=True), assumptions=GEN_ASSUME + [
        'window placements are sampled from the classes row offset {0,1,5} x word offset {0,1,2,3} x parent wider by {0,1,17,64,65,130} columns x rows below or not']),
    'C02': alg(with_huge(simple_jobs('elim', 640), 'elim', 4, 8), mc=lambda tier: gf2_mc(tier) + [mcjob('MC_Echelon', 'MC_Echelon_km%d' % km, workers=12) for km in (1, 2, 6)] + echelonpluq_mc(tier)),
    'C03': alg(with_binding(simple_jobs('ple', 480, qshards=12), 'ple', 'tinyrec', 16, 64), mc=lambda tier: gf2_mc(tier) + [mcjob('MC_PLE', 'MC_PLE', workers=12), mcjob('MC_PLE', 'MC_PLE_tall', workers=12)] + plerec_mc(tier) + words2_mc(tier, ('cl',), wit=True)),
    'C04': alg(simple_jobs('trsm', 480), mc=lambda tier: gf2_mc(tier) + [mcjob('MC_TRSM', workers=12, timeout=1800)]),
    'C05': alg(with_huge(simple_jobs('inv', 320), 'inv', 1, 1), mc=lambda tier: gf2_mc(tier) + [mcjob('MC_Solve', workers=12), mcjob('MC_Inv', 'MC_Inv_full', workers=8), mcjob('MC_Inv', 'MC_Inv_km1', workers=4),
                                                                              mcjob('MC_Inv', 'MC_Inv_wit_NoPadding', workers=2, witness=True)]),
    'C06': alg(simple_jobs('solve', 480), mc=lambda tier: gf2_mc(tier) + [mcjob('MC_Solve', workers=12), mcjob('MC_Solve', 'MC_Solve_wit_f03', workers=4, witness=True)]),
    'C07': alg(simple_jobs('kernel', 320), mc=lambda tier: gf2_mc(tier) + [mcjob('MC_Solve', workers=12)]),
    'C08': alg(simple_jobs('move', 1600), mc=lambda tier: words_mc('MC_MzdWords_c08_w3')(tier) + [mcjob('MC_Butterfly', 'MC_Butterfly_w%d' % w, workers=4) for w in (2, 4, 8, 16)] + [mcjob('MC_MzdWords2', 'MC_MzdWords2_c08', workers=12, timeout=1800)] + [mcjob('MC_TransposeTiling', 'MC_TransposeTiling_quick' if tier == 'quick' else c, workers=8, timeout=1800) for c in (('MC_TransposeTiling',) if tier == 'quick' else ('MC_TransposeTiling', 'MC_TransposeTiling_bs3'))]),
    'C13': alg(simple_jobs('rowops', 1200), mc=lambda tier: words_mc('MC_MzdWords_c13_w3', 'MC_MzdWords_perm')(tier) + words2_mc(tier, ('cswap',))),
    'C17': alg(obs_jobs, mc=words_mc('MC_MzdWords_c17_w2')),
    'C01': dict(level='model_checking', reasons=ALG_REASONS, jobs=c01_jobs,
                mc=lambda tier: gf2_mc(tier) + [mcjob('MC_Strassen', workers=12), mcjob('MC_Strassen', 'MC_Strassen_wit_f01', workers=4, witness=True),
                                                mcjob('MC_M4RM', 'MC_M4RM_quick' if tier == 'quick' else 'MC_M4RM', workers=12), mcjob('MC_DJB', 'MC_DJB', workers=4), mcjob('MC_DJB', 'MC_DJB_tall', workers=8)],
                assumptions=['TLC evaluates GF2.tla operators correctly (checked against declarative twins by MC_GF2)',
                             'the harness logs the raw memory of operands truthfully (memcmp snapshots)',
                             'contents at 64-bit word size are sampled (structured families + seeded random), not exhaustive']),
}


def sig_of(ev, call, job):
    """signature of a rejected event for known-findings matching"""
    src = ev if ('op' in ev and ev.get('e') != 'crash') else (call or {})
    sig = {'op': src.get('op', '?'), 'cfg': job.cfg, 'family': job.family}
    pp = src.get('p', {})
    for k, v in (pp.items() if isinstance(pp, dict) else []):
        if isinstance(v, (int, str)):
            sig['p_' + k] = v
    dims = []
    if 'o' in src:
        dims = [[o['m'], o['n'], o['r0'], o['c0']] for o in src['o']]
    elif 'dims' in src:
        dims = src['dims']
    sig['dims'] = dims
    flat = [d[0] for d in dims if d[0] > 0] + [d[1] for d in dims if d[1] > 0]
    sig['mindim'] = min(flat) if flat else 0
    sig['maxdim'] = max(flat) if flat else 0
    # effective Strassen cutoff as normalised by the public wrappers
    if 'p_k' in sig and isinstance(sig['p_k'], int):
        c = sig['p_k']
        sig['cutoff_eff'] = max(64, c // 64 * 64) if c > 0 else 0
    sig['dims_in_86_127'] = int(any(86 <= x <= 127 for x in flat))
    return sig


def summarize_event(ev):
    return {'op': ev['op'], 'p': {k: v for k, v in ev['p'].items() if k != '_'},
            'operands': [{'nm': o['nm'], 'role': o['role'], 'm': o['m'], 'n': o['n'], 'r0': o['r0'], 'c0': o['c0']} for o in ev['o']],
            'ret': ev['ret'], 'die': ev['die']}


def run_property(prop, tier, seed):
    P = PROPS[prop]
    if 'custom' in P:
        return P['custom'](prop, tier, seed)
    rundir = os.path.join(vlib.BUILD, 'run', '%s-%s' % (prop, tier))
    shutil.rmtree(rundir, ignore_errors=True)
    os.makedirs(rundir)
    vlib.build_overrides()
    extra_cov = {}
    if 'prepare' in P:
        extra_cov = P['prepare'](tier, seed, rundir) or {}
    jobs = P['jobs'](tier, seed) if 'prepare' not in P else P['jobs'](tier, seed, rundir)
    mcs = P['mc'](tier)
    vlib.build(sorted(set(j.cfg for j in jobs)))
    known = vlib.load_known()
    res = dict(level=P['level'], violations=[], known=[], assumptions=P['assumptions'])
    states = trans = 0
    mc_summ = []
    # ---- bounded model checks
    for m in mcs:
        r = vlib.run_mc(m['module'], m['cfg'], m['workers'], m['timeout'], m['xmx'])
        note = ''
        if r['violation']:
            note = ' (reachability witness reached, as required)' if m.get('witness') else ' -- model check FAILED: ' + r['violation']
        log('[mc] %s/%s: %d distinct states, %d generated, %.0fs%s' % (m['module'], m['cfg'], r['distinct'], r['generated'], r['secs'], note))
        states += r['distinct']
        trans += r['generated']
        mc_summ.append({'module': m['module'], 'cfg': m['cfg'], 'distinct_states': r['distinct'], 'states_generated': r['generated'], 'secs': round(r['secs'], 1),
                        'expect_violation': bool(m.get('witness'))})
        if m.get('witness'):
            # reachability witness: the "never" invariant must be violated, else the model cannot reach the case (vacuity)
            if not r['violation']:
                raise Infra('vacuity: witness %s/%s was not reached by the model' % (m['module'], m['cfg']))
            continue
        if r['violation']:
            path = '%s/replays/%s_mc_%s.txt' % (V, prop, m['cfg'])
            os.makedirs(V + '/replays', exist_ok=True)
            open(path, 'w').write(r['out'])
            kf = vlib.match_known(known, prop, {'op': 'mc:' + m['module'], 'cfg': m['cfg']})
            if kf:
                res['known'].append(kf['id'] + ': ' + kf['what'])
            else:
                res['violations'].append({'replay': path, 'detail': 'model check %s/%s: %s' % (m['module'], m['cfg'], r['violation'])})
    # ---- drive the real library, validate traces
    t = time.time()
    pairs = [(j, s) for j in jobs for s in range(j.shards)]
    with ThreadPoolExecutor(max_workers=vlib.NCPU) as ex:
        raw = list(ex.map(lambda js: vlib.run_driver(js[0], rundir, seed, tier, js[1]), pairs))
    # a threaded driver run yields one trace per thread
    pairs2, traces = [], []
    for (job, shard), r in zip(pairs, raw):
        if job.expect_races:
            continue    # witness build: only its race reports matter, its (possibly corrupted) traces are not validated
        for x in (r if isinstance(r, list) else [r]):
            pairs2.append((job, shard))
            traces.append(x)
    pairs = pairs2
    log('[drive] %d trace(s) recorded in %.0fs' % (len(traces), time.time() - t))
    for job in jobs:
        if job.tsan and job.expect_races:
            if not any(n for _, n in job.races):
                # not a verdict about the property: recorded in the evidence, the check itself goes on
                log('[tsan] WARNING (vacuity): ThreadSanitizer saw no race in the witness build %s in this run' % job.cfg)
                extra_cov['tsan_witness_races'] = 0
            else:
                extra_cov['tsan_witness_races'] = sum(n for _, n in job.races)
                log('[tsan] witness %s: %d report(s) in the cached build, as expected' % (job.label, sum(n for _, n in job.races)))
        elif job.tsan:
            for path, n in job.races:
                kf = vlib.match_known(known, prop, {'op': 'tsan', 'cfg': job.cfg, 'family': job.family, 'reasons': ['race']})
                if kf:
                    res['known'].append(kf['id'] + ': ' + kf['what'])
                else:
                    res['violations'].append({'replay': path, 'detail': '%d ThreadSanitizer report(s) (repeated on re-run) in %s' % (n, job.label)})
            log('[tsan] %s: %d repeated report(s)' % (job.label, sum(n for _, n in job.races)))
    if 'post_drive' in P:
        for v in P['post_drive'](prop, pairs, traces, rundir, seed, tier):
            kf = vlib.match_known(known, prop, v['sig'])
            if kf:
                msg = kf['id'] + ': ' + kf['what']
                if msg not in res['known']:
                    res['known'].append(msg)
            else:
                res['violations'].append({'replay': v['replay'], 'detail': v['detail']})
    t = time.time()
    def validate(jt):
        (job, shard), tr = jt
        try:
            return vlib.run_tlc_trace(job, tr, rundir)
        except Infra:
            if job.tsan and job.races:
                # a racy run may corrupt its own trace; the (repeated) race reports are the verdict for this job
                return {'trace': tr, 'fails': [], 'crashes': [], 'done': [0, 0, 0], 'info': [], 'secs': 0, 'states': 0}
            raise
    with ThreadPoolExecutor(max_workers=vlib.NCPU) as ex:
        results = list(ex.map(validate, zip(pairs, traces)))
    log('[tlc] %d trace(s) validated in %.0fs' % (len(traces), time.time() - t))
    nev = 0
    sigs = set()
    perop = {}
    samples = []
    other = {}
    drift = {}
    nbound = {}
    winshare = {}
    classes = {}
    reached = {}
    for (job, shard), tr, r in zip(pairs, traces, results):
        states += r['states']
        trans += r['states']
        nev += r['done'][1]
        lines = None
        # event statistics
        defs = {}
        lineno = 0
        with open(tr) as f:
            for ln in f:
                lineno += 1
                if ln.startswith('{"e":"def"'):
                    mm = re.match(r'\{"e":"def","m":(\d+),"n":(\d+)', ln)
                    if mm:
                        defs[lineno] = (int(mm.group(1)), int(mm.group(2)))
                    continue
                if ln.startswith('{"e":"fault"'):
                    ev = json.loads(ln)
                    s = {'op': 'fault:' + ev['scn'], 'failed_request': ev['i'], 'of': ev['n'], 'fate': ev['fate']}
                    key = json.dumps(s, sort_keys=True)
                    if key not in sigs:
                        sigs.add(key)
                        if len(samples) < 6 and (len(sigs) % 131 == 1):
                            samples.append(s)
                    perop[s['op']] = perop.get(s['op'], 0) + 1
                elif ln.startswith('{"e":"aop"'):
                    ev = json.loads(ln)
                    s = {'op': 'alloc:' + ev['op'], 'size': ev['size'], 'heap_calls': [[c[0], c[1]] for c in ev['obs']][:12]}
                    key = json.dumps(s, sort_keys=True)
                    if key not in sigs:
                        sigs.add(key)
                        if len(samples) < 6 and (len(sigs) % 5 == 1):
                            samples.append(s)
                    perop[s['op']] = perop.get(s['op'], 0) + 1
                elif ln.startswith('{"e":"op"'):
                    ev = json.loads(ln)
                    s = summarize_event(ev)
                    key = json.dumps(s, sort_keys=True)
                    if key not in sigs:
                        sigs.add(key)
                        if len(samples) < 6 and (len(sigs) % 97 == 1):
                            samples.append(s)
                    perop[ev['op']] = perop.get(ev['op'], 0) + 1
                    if 'views' in job.label:
                        # which share of the matrix operands of this operation really were windows (a views job whose
                        # operation never sees a window does not test what it claims)
                        w = winshare.setdefault(ev['op'], [0, 0])
                        for o in ev.get('o', []):
                            if o.get('pre', 0) > 0 and o['pre'] in defs:
                                w[1] += 1
                                if (o['m'], o['n']) != defs[o['pre']]:
                                    w[0] += 1
                    if ev['op'] in BOUND_OPS and ev.get('o') and not ev.get('die'):
                        o0 = ev['o'][0]
                        if o0['m'] * o0['n'] <= 10000 or (job.cfg.startswith('tiny') and o0['m'] * o0['n'] <= 350 * 270):
                            skip = (ev['op'] in ('echelonize_m4ri', 'top_echelonize_m4ri') and ev['p'].get('k', 0) < 1) or (ev['op'] == 'echelonize_pluq' and ev['p'].get('full') == 1) \
                                or (ev['op'] in ('solve_left', '_solve_left') and ev.get('ret') != 0)
                            if not skip:
                                nbound[ev['op']] = nbound.get(ev['op'], 0) + 1
                    for fn in ev.get('fn', []):
                        reached[fn] = reached.get(fn, 0) + 1
        bad = [(ln, op, reasons) for (ln, op, reasons) in r['fails']] + [(c[0], 'crash', ['crash']) for c in r['crashes']]
        if job.cfg in P.get('skip_reject_cfgs', []):
            bad = []
        if getattr(job, 'binding_only', False):
            for ln, op, reasons in bad:
                for x in reasons:
                    if not x.startswith('drift_'):
                        other['%s(outside the quantified configurations, %s)' % (x, job.cfg)] = other.get('%s(outside the quantified configurations, %s)' % (x, job.cfg), 0) + 1
            bad = [(ln, op, [x for x in reasons if x.startswith('drift_')]) for (ln, op, reasons) in bad]
            bad = [b for b in bad if b[2]]
        keep = False
        for ln, op, reasons in bad:
            if lines is None:
                lines = vlib.load_lines(tr)
            ev = vlib.event_at(lines, ln)
            call = None
            if ev.get('e') == 'crash':
                j = ln - 1
                while j > 0 and not lines[j - 1].startswith('{"e":"call"'):
                    j -= 1
                call = json.loads(lines[j - 1]) if j > 0 else None
            rel = sorted(set(reasons) & P['reasons'])
            if not rel:
                for x in reasons:
                    if x in P.get('drift', ()) or x.startswith('drift_'):
                        drift[x + ' ' + job.label] = drift.get(x + ' ' + job.label, 0) + 1
                    else:
                        other[x] = other.get(x, 0) + 1
                continue
            sig = sig_of(ev, call, job)
            sig['reasons'] = rel
            kf = vlib.match_known(known, prop, sig)
            desc = '%s %s reasons=%s cfg=%s case=%s dims=%s params=%s' % (
                sig['op'], job.family, ','.join(rel), job.cfg, ev.get('case', '?'), sig['dims'],
                {k[2:]: v for k, v in sig.items() if k.startswith('p_') and k != 'p__'})
            if kf:
                msg = kf['id'] + ': ' + kf['what']
                if msg not in res['known']:
                    res['known'].append(msg)
                continue
            keep = True
            ck = '%s [%s] %s' % (sig['op'], ','.join(rel), job.label)
            classes[ck] = classes.get(ck, 0) + 1
            # one replay file per (operation, reasons, job) class, at most 40 in total
            if classes[ck] <= 2 and len(res['violations']) < 40:
                path = vlib.make_replay(lines, ln, rundir, prop, job, seed, tier, rel)
                res['violations'].append({'replay': path, 'detail': desc})
        if not keep and not os.environ.get('VERIF_KEEP'):
            for suffix in ('', '.tlc.log', '.driver.log'):
                try:
                    os.remove(tr + suffix)
                except OSError:
                    pass
    for ck in sorted(classes):
        log('[rejected] %4d x %s' % (classes[ck], ck))
    nowin = sorted(k for k, v in winshare.items() if v[1] >= 20 and v[0] == 0)
    if nowin:
        log('[views] WARNING: operations that never received a window operand in the views jobs: %s' % ', '.join(nowin))
    for dk in sorted(drift):
        log('[model-drift] %4d x %s: the code no longer follows the specification\'s internal policy here; the bounded model checks of that '
            'policy do not transfer to this tree (not a verdict about the property, which is judged on the observables)' % (drift[dk], dk))
    if other:
        log('[note] rejections for reasons judged by other properties (not counted here): %s' % other)
    if not samples and sigs:
        samples = [json.loads(next(iter(sigs)))]
    res['coverage'] = {
        'states': max(states, 1), 'transitions': max(trans, 1), 'traces_validated_against_impl': len(traces),
        'samples': samples, 'evaluations': nev, 'distinct_nontrivial': len(sigs),
        'rule': 'one evaluation = one public call of the real library whose operands, results and surrounding memory were judged by TLC; '
                'distinct = distinct (operation, parameters, operand shapes/placements) tuples; all have positive dimensions',
        'events_per_operation': perop, 'model_checks': mc_summ,
        'build_configurations': sorted(set(j.cfg for j in jobs)),
        'rejections_left_to_other_properties': other,
        'model_drift': drift,
        'window_operands_in_views_jobs': {k: '%d of %d' % (v[0], v[1]) for k, v in sorted(winshare.items())},
        'model_conformance': {'events_compared_bit_for_bit_with_the_implementation_shaped_model': nbound,
                              'models': 'alg/PLERussian (k explicit or automatic), alg/PLERec (naive PLE/PLUQ; block recursion with the PLERussian base case and the '
                                        'TRSM recursion), alg/Echelon (explicit k; pivot search), alg/Solve (solve_left, kernel, echelonize_pluq without full reduction on '
                                        'the PLERec factorisation); a mismatch is reported as model drift, never as a violation'},
        'internal_routines_reached': reached,
    }
    res['coverage'].update(extra_cov)
    res['coverage'].update(P.get('coverage_extra', {}))
    if P['level'] == 'other':
        res['coverage']['explanation'] = P.get('explanation', 'spec-enumerated executions observed with sanitizer instrumentation; abort discipline and allocation balance judged by TLC')
    return res


def replay(prop, path):
    """(1) re-judge the recorded event of a replay file with TLC (specification side); (2) rebuild the configuration
    from the current working tree, re-run exactly that case on the real code and validate the new trace.
    Exit 1 if the current tree still shows the rejection, 0 if it does not."""
    if not path.endswith('.ndjson'):
        log(open(path).read()[:4000])
        return 1
    lines = vlib.load_lines(path)
    hdr = json.loads([x for x in lines if x.strip()][-1])
    os.makedirs(vlib.BUILD, exist_ok=True)
    tmp = os.path.join(vlib.BUILD, 'replay_tmp.ndjson')
    with open(tmp, 'w') as f:
        f.write('\n'.join(x for x in lines if x.strip() and not x.startswith('{"e": "replay"') and not x.startswith('{"e":"replay"')) + '\n')
    job = TraceJob(hdr['cfg'], hdr['family'], spec=hdr.get('spec', 'TraceOps'))
    vlib.build_overrides()
    r = vlib.run_tlc_trace(job, tmp, vlib.BUILD)
    log('recorded event re-judged by the specification: fails=%s crashes=%s' % (r['fails'], r['crashes']))
    if hdr.get('case', -1) in (-1, None):
        return 1 if (r['fails'] or r['crashes']) else 0
    vlib.build([hdr['cfg']])
    out = os.path.join(vlib.BUILD, 'replay_rerun.ndjson')
    cmd = [vlib.vh(hdr['cfg']), 'drive', hdr['family'], '--out', out, '--seed', str(hdr['seed']), '--tier', hdr['tier']] + hdr.get('args', []) + ['--only', str(hdr['case'])]
    rc, o = vlib.sh(cmd, timeout=900, env={'ASAN_OPTIONS': 'detect_leaks=0:abort_on_error=1'})
    if rc != 0:
        log('re-run of the case failed to execute (rc=%d):\n%s' % (rc, o[-1500:]))
        return 2
    r2 = vlib.run_tlc_trace(job, out, vlib.BUILD)
    log('case %s re-run on the current working tree: fails=%s crashes=%s' % (hdr['case'], r2['fails'], r2['crashes']))
    return 1 if (r2['fails'] or r2['crashes']) else 0
