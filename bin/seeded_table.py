#!/usr/bin/env python3
"""regenerate section 14 of DESIGN.md (table of seeded changes and the checks that catch them) from seeded/*/meta.json"""
import glob, json, os, re
V = os.path.dirname(os.path.dirname(os.path.abspath(__file__)))
rows = []
nfirst = 0
for m in sorted(glob.glob(V + '/seeded/C*/meta.json')):
    d = json.load(open(m))
    name = os.path.basename(os.path.dirname(m))
    tp = d.get('checks_run', {}).get(name.split('_')[0])
    if tp and tp.get('quick_check_exit') == 1 and not tp.get('first_attempt_missed') and not d.get('notes', '').startswith('first missed'):
        nfirst += 1
    caught = []
    for prop, r in sorted(d.get('checks_run', {}).items()):
        if r.get('quick_check_exit') == 1:
            cls = '; '.join(sorted(set(re.sub(r'^\d+ x ', '', c).split(' [')[0] + ' [' + c.split(' [')[1].split(']')[0] + ']' for c in r.get('rejection_classes', []) if ' [' in c)))[:110]
            caught.append('%s (%s)' % (prop, cls) if cls else prop)
    need = d.get('what_it_needs_to_manifest', '')
    if isinstance(need, list):
        need = '; '.join(need)
    need = re.sub(r'\s+', ' ', str(need))[:170]
    note = re.sub(r'\s+', ' ', d.get('notes', ''))[:220]
    rows.append('| `%s` | %s | %s | %s |' % (name, need.replace('|', '/'), ', '.join(caught).replace('|', '/') or 'NOT CAUGHT', note.replace('|', '/')))
txt = '''## 14. Seeded changes and the checks that catch them

Each change was produced by an independent sub-agent that saw only the property text and a scratch worktree of
/repo (nothing from /verif), compiles, passes the repository's 15 tests, and comes with a demonstration that
fails with the change and passes without it; I re-ran tests and demonstration myself (`confirmed` in meta.json)
and then ran the quick check of the targeted property on a scratch worktree with the patch applied
(`bin/seedtest.sh`). "first missed" notes say what was strengthened when a check did not catch a change at
first; no check was loosened. %d changes, %d caught by the quick tier of the final machinery; %d of them were
caught by the check of their target property the first time it was run against them, the others after the
driver or the check was strengthened as the note says (ten rounds of changes; rounds seven and eight 18 and 16 of 20; the ninth round asked for changes that need an exotic
input - dimensions of 32768 and more, a million rows, exactly one word of columns above the cutoff, a full block cache, a
destination larger than the block - and 10 of its 20 were caught at the first run, all 20 after the drivers were extended; a short tenth round of ordinary mistakes
(5 changes - the agents dropped seven more candidates because the repository's tests caught them) was caught 5 of 5 at the first run;
the rate of first-run catches per round is what to expect for a change nobody has looked at yet).

| seeded change | needs, to manifest | caught by (quick tier) | note |
|---|---|---|---|
%s
''' % (len(rows), sum('NOT CAUGHT' not in r for r in rows), nfirst, '\n'.join(rows))
brows = []
for m in sorted(glob.glob(V + '/seeded/benign/*/meta.json')):
    d = json.load(open(m))
    name = os.path.basename(os.path.dirname(m))
    what = re.sub(r'\s+', ' ', str(d.get('what_changed') or d.get('title') or ''))[:200]
    res = []
    for prop, r in sorted(d.get('checks_run', {}).items()):
        dr = sorted(set(x.split(' ')[-2] if len(x.split(' ')) > 2 else x for x in r.get('model_drift', [])))
        res.append('%s: %s%s' % (prop, 'ALARM' if r.get('quick_check_exit') == 1 else 'quiet', (' (drift: ' + ', '.join(dr) + ')') if dr else ''))
    note = re.sub(r'\s+', ' ', d.get('notes', ''))[:260]
    brows.append('| `%s` | %s | %s | %s |' % (name, what.replace('|', '/'), '; '.join(res), note.replace('|', '/')))
txt += '''
## 14b. Behaviour-preserving changes and the checks that stay quiet

The opposite experiment: changes after which every property still holds (another pivot row, another k heuristic,
another split point, another cache policy, another loop shape, other temporaries, other OpenMP schedules, other
message texts), produced by independent sub-agents that saw the property texts and a scratch worktree only.
A check that exits 1 on one of them raises a false alarm. Two did at first - both defects of the machinery, both
corrected (section 11, entries 7 and 8). Of the %d changes the final machinery is quiet on %d and reports model
drift (exit 0) where the change makes the code differ from an implementation-shaped model or from the allocator's
policy model; the remaining alarm (`B_apply_p_left_gather_rows`, C11) is justified: the change reads and writes its
index vector out of bounds, which its author's differential testing had not noticed (see its note).

| change | what it does | checks run (final machinery) | note |
|---|---|---|---|
%s
''' % (len(brows), sum(': ALARM' not in r.split('|')[3] for r in brows), '\n'.join(brows))
p = V + '/DESIGN.md'
s = open(p).read()
i = s.find('## 14. Seeded changes and the checks that catch them')
s = (s[:i] if i >= 0 else s.rstrip('\n') + '\n\n') + txt
open(p, 'w').write(s)
print(len(rows), 'rows')
