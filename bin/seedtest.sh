#!/bin/bash
# seedtest.sh <seeded-dir> [property ...] : apply seeded/<id>/patch.diff to /repo's working tree, run the quick
# check(s) of the targeted property (default: meta.json's property), report whether a VIOLATION was raised,
# and restore /repo. Never commits anything in /repo.
D=$1; shift
[ -f "$D/patch.diff" ] || { echo "no patch in $D"; exit 2; }
props="$@"
[ -n "$props" ] || props=$(python3 -c "import json,sys; print(json.load(open('$D/meta.json'))['property'])")
cd /repo || exit 2
git diff --quiet || { echo "/repo working tree is not clean"; exit 2; }
git apply "$D/patch.diff" || { echo "patch does not apply"; exit 2; }
trap 'git -C /repo checkout -- . ' EXIT
for p in $props; do
  cp /verif/evidence/$p.json /tmp/seedtest_evidence_$p.json 2>/dev/null   # evidence of a mutated tree is not kept
  out=$(cd /verif && VERIF_BUILD=/verif/build/seed bin/vcheck $p --tier ${TIER:-quick} 2>&1)
  rc=$?
  cp /tmp/seedtest_evidence_$p.json /verif/evidence/$p.json 2>/dev/null
  nv=$(echo "$out" | grep -c "^VIOLATION property=$p")
  echo "== $(basename $D) vs $p: exit=$rc violations=$nv"
  echo "$out" | grep "^\[rejected\]\|^  detail\|INFRA\|purity\|tsan" | head -8
done
