#!/bin/bash
# seedtest.sh <seeded-dir> [property ...] : apply <dir>/patch.diff to a scratch worktree of /repo's HEAD
# (outside /repo and /verif), run the quick check(s) of the targeted property there (VERIF_SRC), report
# whether a VIOLATION was raised, and remove the worktree. /repo itself is never touched.
# (SEED_IN_REPO=1 applies the patch to /repo's working tree instead and restores it afterwards.)
D=$(cd "$1" && pwd); shift
[ -f "$D/patch.diff" ] || { echo "no patch in $D"; exit 2; }
props="$@"
[ -n "$props" ] || props=$(python3 -c "import json; print(json.load(open('$D/meta.json'))['property'].split()[0].strip(',;'))")
V=$(cd "$(dirname "$0")/.." && pwd)
if [ "${SEED_IN_REPO:-0}" = 1 ]; then
  SRC=/repo
  git -C /repo diff --quiet || { echo "/repo working tree is not clean"; exit 2; }
  git -C /repo apply "$D/patch.diff" || { echo "patch does not apply"; exit 2; }
  trap 'git -C /repo checkout -- .' EXIT
else
  SRC=/tmp/seed_wt_$$
  git -C /repo worktree add -q --detach $SRC HEAD || exit 2
  trap 'git -C /repo worktree remove --force '$SRC EXIT
  git -C $SRC apply "$D/patch.diff" || { echo "patch does not apply"; exit 2; }
fi
for p in $props; do
  out=$(cd $V && VERIF_SRC=$SRC VERIF_BUILD=$V/build/seed_$$ bin/vcheck $p --tier ${TIER:-quick} 2>&1)
  rc=$?
  nv=$(echo "$out" | grep -c "^VIOLATION property=$p")
  echo "== $(basename $D) vs $p: exit=$rc violations=$nv"
  echo "$out" | grep "^\[rejected\]\|^\[model-drift\]\|INFRA\|purity\] .* [1-9][0-9]* differ\|tsan\] .* [1-9]" | head -6
done
rm -rf $V/build/seed_$$
