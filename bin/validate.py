#!/usr/bin/env python3
"""validate MANIFEST.json and evidence/*.json against the schemas (uses the tooling venv's jsonschema)"""
import json, sys, glob
import jsonschema
ok = True
def chk(path, schema):
    global ok
    try:
        jsonschema.validate(json.load(open(path)), json.load(open(schema)))
        print('valid  ', path)
    except Exception as e:
        ok = False
        print('INVALID', path, str(e)[:300])
chk('/verif/MANIFEST.json', '/root/.vp/MANIFEST.schema.json')
for f in sorted(glob.glob('/verif/evidence/*.json')):
    chk(f, '/root/.vp/EVIDENCE.schema.json')
sys.exit(0 if ok else 1)
