#!/bin/bash
# linecov.sh [tier] - which lines of /repo/m4ri/*.c do the driver families of the quick (default) tier execute?
# Builds the small-cache configuration with gcov instrumentation, runs every family once (plain, views, tiny-recursion,
# generated programs are left out), and prints per file the functions with lines never executed. A planning aid for
# the drivers ("which regime is never entered"), not a check.
V=$(cd "$(dirname "$0")/.." && pwd)
TIER=${1:-quick}
CFG=small_sse_cache_seq_cov
$V/bin/build.sh $CFG > /dev/null || exit 2
B=$V/build/$CFG; VH=$B/vh
find $B/obj -name '*.gcda' -delete
export VH_NOFORK=1
for fam in mul move rowops obs elim ple trsm inv solve kernel kernels io alloc; do
  $VH drive $fam --out $B/cov_$fam.ndjson --seed 1 --shard 0/1 --tier $TIER > /dev/null 2>&1
  $VH drive $fam --out $B/cov_$fam.ndjson --seed 2 --shard 0/1 --tier $TIER --extra views > /dev/null 2>&1
done
$VH drive fault --out $B/cov_fault.ndjson --seed 1 --shard 0/1 --tier $TIER > /dev/null 2>&1
rm -f $B/cov_*.ndjson
cd $B/obj
for f in $(ls ${VERIF_SRC:-/repo}/m4ri/*.c); do
  b=$(basename ${f%.c})
  [ -f $b.gcda ] || { echo "== $b.c: never executed"; continue; }
  gcov -o . $b.o > /dev/null 2>&1
done
python3 - <<'PY'
import glob, re, os
for g in sorted(glob.glob('*.gcov')):
    src = g[:-5]
    if not (src.endswith('.c') or src.endswith('.h')) or src.startswith('vh'):
        continue
    lines = open(g, errors='replace').read().splitlines()
    miss = [(int(l.split(':')[1]), l.split(':', 2)[2]) for l in lines if l.lstrip().startswith('#####')]
    total = sum(1 for l in lines if re.match(r'\s*(\d+|#####)\*?:', l))
    if not total:
        continue
    print('== %s: %d of %d executable lines never executed' % (src, len(miss), total))
    # group consecutive lines
    grp = []
    for n, t in miss:
        if grp and n - grp[-1][1] <= 2:
            grp[-1][1] = n
        else:
            grp.append([n, n, t.strip()[:90]])
    for a, b, t in grp[:60]:
        print('   %5d-%-5d %s' % (a, b, t))
PY
rm -f *.gcov
