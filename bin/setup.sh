#!/bin/bash
# setup: check the tools the framework needs and pre-build the default configurations (offline).
set -e
cd "$(dirname "$0")/.."
for t in gcc clang java python3; do command -v $t >/dev/null || { echo "missing $t"; exit 2; }; done
test -f /opt/veriftools/tla/tla2tools.jar
mkdir -p build evidence replays
javac -cp /opt/veriftools/tla/tla2tools.jar -d spec spec/java/GF2.java
for c in small_sse_cache_seq; do bin/build.sh $c; done
echo setup ok
