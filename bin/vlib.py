"""vlib.py - shared machinery of bin/vcheck: builds, driver runs, TLC runs, result parsing,
known-findings matching, evidence writing.  See DESIGN.md 3.7."""
import fcntl
import json
import os
import re
import shutil
import subprocess
import sys
import time
from concurrent.futures import ThreadPoolExecutor

V = os.path.dirname(os.path.dirname(os.path.abspath(__file__)))   # the framework root (also works from a snapshot copy)
BUILD = os.environ.get('VERIF_BUILD', V + '/build')
NCPU = int(os.environ.get('VERIF_JOBS', '16'))
JAVA_OPTS = '-Xss512m -Xms1g -Xmx%s -XX:+UseSerialGC'


class Infra(Exception):
    """the machinery itself failed (build error, TLC crash, timeout): exit 2, never a violation"""


def log(*a):
    print(*a, flush=True)


def sh(cmd, timeout=None, env=None, cwd=None):
    e = dict(os.environ)
    if env:
        e.update(env)
    try:
        p = subprocess.run(cmd, shell=isinstance(cmd, str), stdout=subprocess.PIPE, stderr=subprocess.STDOUT,
                           timeout=timeout, env=e, cwd=cwd)
        return p.returncode, p.stdout.decode('utf-8', 'replace')
    except subprocess.TimeoutExpired as ex:
        out = ex.stdout.decode('utf-8', 'replace') if ex.stdout else ''
        return 124, out + '\nTIMEOUT\n'


def build_overrides():
    """compile the TLC module override (spec/java/GF2.java -> spec/GF2.class) if missing or stale"""
    src, cls = V + '/spec/java/GF2.java', V + '/spec/GF2.class'
    if os.path.exists(cls) and os.path.getmtime(cls) >= os.path.getmtime(src):
        return
    rc, out = sh(['javac', '-cp', '/opt/veriftools/tla/tla2tools.jar', '-d', V + '/spec', src], timeout=120)
    if rc != 0:
        raise Infra('javac GF2.java failed:\n' + out)


def build(cfgs):
    """(re)build every configuration from the current working tree of $VERIF_SRC (default /repo)"""
    os.makedirs(BUILD, exist_ok=True)
    build_overrides()

    def one(cfg):
        lock = open(os.path.join(BUILD, '.lock_' + cfg), 'w')
        fcntl.flock(lock, fcntl.LOCK_EX)
        try:
            rc, out = sh([V + '/bin/build.sh', cfg], timeout=600)
        finally:
            fcntl.flock(lock, fcntl.LOCK_UN)
        if rc != 0:
            raise Infra('build of %s failed:\n%s' % (cfg, out[-3000:]))
        return cfg
    t = time.time()
    with ThreadPoolExecutor(max_workers=4) as ex:
        list(ex.map(one, cfgs))
    log('[build] %d configuration(s) in %.1fs: %s' % (len(cfgs), time.time() - t, ' '.join(cfgs)))


def vh(cfg):
    return os.path.join(BUILD, cfg, 'vh')


class TraceJob:
    """drive one family in one build configuration (sharded), validate every shard with TLC"""

    def __init__(self, cfg, family, shards=16, args=None, spec='TraceOps', env=None, label=None, timeout=900, xmx='3g', threads=0, tsan=False,
                 expect_races=False, binding_only=False):
        self.cfg, self.family, self.shards = cfg, family, shards
        self.binding_only = binding_only  # configuration outside the properties' quantification: only model conformance (drift) is read off
        self.args = args or []
        self.spec = spec
        self.env = env or {}
        self.label = label or ('%s@%s' % (family, cfg))
        self.timeout = timeout
        self.xmx = xmx
        self.threads = threads      # > 0: the driver writes one trace per thread (<out>.t<i>)
        self.tsan = tsan            # scan the driver's stderr for ThreadSanitizer reports
        self.expect_races = expect_races  # witness job: the harness must be able to see a race (cached build)
        self.races = []


def tsan_count(o):
    """(reports with at least one stack frame in the library's sources, reports with frames in the harness only)"""
    lib = harness = 0
    for rep in o.split('WARNING: ThreadSanitizer')[1:]:
        rep = rep.split('SUMMARY: ThreadSanitizer')[0]
        frames = re.findall(r'^\s+#\d+ \S+ (\S+?):\d+', rep, re.M)
        if any('/m4ri/' in f or f.startswith('m4ri/') for f in frames):
            lib += 1
        elif any('/harness/' in f for f in frames):
            harness += 1  # no frame of the library anywhere in the report, only harness (and runtime) frames
        else:
            lib += 1      # unknown location: counted (conservative)
    return lib, harness


def run_driver(job, rundir, seed, tier, shard):
    out = os.path.join(rundir, '%s.%d.ndjson' % (job.label.replace('/', '_'), shard))
    cmd = [vh(job.cfg), 'drive', job.family, '--out', out, '--seed', str(seed), '--shard', '%d/%d' % (shard, job.shards),
           '--tier', tier] + [str(x) for x in job.args]
    env = {'ASAN_OPTIONS': 'detect_leaks=0:abort_on_error=1:allocator_may_return_null=1', 'UBSAN_OPTIONS': 'print_stacktrace=1:halt_on_error=1'}
    env.update(job.env)
    if job.tsan:
        env['TSAN_OPTIONS'] = 'exitcode=0:halt_on_error=0:report_signal_unsafe=0'
    rc, o = sh(cmd, timeout=job.timeout, env=env)
    with open(out + '.driver.log', 'w') as f:
        f.write(o)
    if rc != 0:
        raise Infra('driver %s shard %d exited %d:\n%s' % (job.label, shard, rc, o[-2000:]))
    if job.tsan:
        n, nh = tsan_count(o)
        if nh:
            log('[tsan] WARNING: %d report(s) in %s lie entirely inside the harness (a defect of the harness, not counted)' % (nh, job.label))
        if n and not job.expect_races:
            # a report must repeat on one re-run before it is believed (DESIGN 7.2)
            rc2, o2 = sh(cmd, timeout=job.timeout, env=env)
            with open(out + '.driver.rerun.log', 'w') as f:
                f.write(o2)
            if tsan_count(o2)[0]:
                job.races.append((out + '.driver.log', n))
        elif job.expect_races:
            job.races.append((out + '.driver.log', n))
    if job.threads:
        outs = [out + '.t%d' % i for i in range(job.threads)]
        for x in outs:
            if not os.path.exists(x):
                raise Infra('missing per-thread trace ' + x)
        return outs
    return out


VRE = re.compile(r'^<<"(VFAIL|VCRASH|VDONE|VINFO)", (.*)>>\s*$')


def run_tlc_trace(job, trace, rundir):
    meta = trace + '.meta'
    shutil.rmtree(meta, ignore_errors=True)
    env = {'TRACE': trace, 'JAVA_TOOL_OPTIONS': JAVA_OPTS % job.xmx, 'TLC_TIMEOUT': str(job.timeout)}
    spec = '%s/spec/trace/%s' % (V, job.spec)
    t = time.time()
    rc, o = sh([V + '/bin/tlc.sh', spec + '.tla', spec + '.cfg', meta, '-workers', '1'], env=env, cwd=V + '/spec/trace', timeout=job.timeout + 30)
    dt = time.time() - t
    with open(trace + '.tlc.log', 'w') as f:
        f.write(o)
    shutil.rmtree(meta, ignore_errors=True)
    res = {'trace': trace, 'fails': [], 'crashes': [], 'done': None, 'info': [], 'secs': dt, 'states': 0}
    for line in o.splitlines():
        m = VRE.match(line.strip())
        if not m:
            continue
        kind, rest = m.group(1), m.group(2)
        if kind == 'VFAIL':
            mm = re.match(r'(\d+), "([^"]*)", \{(.*)\}$', rest)
            if not mm:
                raise Infra('cannot parse ' + line)
            reasons = sorted(x.strip().strip('"') for x in mm.group(3).split(',') if x.strip())
            res['fails'].append((int(mm.group(1)), mm.group(2), reasons))
        elif kind == 'VCRASH':
            a = [int(x) for x in rest.split(',')]
            res['crashes'].append(tuple(a))
        elif kind == 'VDONE':
            res['done'] = [int(x) for x in rest.split(',')]
        else:
            res['info'].append(rest)
    m = re.search(r'(\d+) states generated, (\d+) distinct states found', o)
    if m:
        res['states'] = int(m.group(2))
    if res['done'] is None or rc != 0:
        raise Infra('TLC did not finish validating %s (rc=%d, %.0fs):\n%s' % (trace, rc, dt, o[-3000:]))
    return res


def load_lines(trace):
    with open(trace) as f:
        return f.read().split('\n')


def event_at(lines, ln):
    return json.loads(lines[ln - 1])


def make_replay(lines, ln, rundir, prop, job, seed, tier, reasons):
    """self-contained replay file for the event at line ln: configuration, case, the event with the
    defs it refers to (renumbered), and how to re-run it on the real code"""
    ev = event_at(lines, ln)
    os.makedirs(V + '/replays', exist_ok=True)
    refs = []
    if ev.get('e') == 'op':
        for o in ev['o']:
            for k in ('pre', 'post'):
                if o[k] > 0 and o[k] not in refs:
                    refs.append(o[k])
        for s in ev.get('stray', []):
            if s not in refs:
                refs.append(s)
        for k, v in ev.get('p', {}).items():
            if k.startswith('L_') and isinstance(v, int) and v > 0 and v not in refs:
                refs.append(v)
    refs.sort()
    # line 1 of every trace is the cfg event
    out = [lines[0]]
    renum = {}
    for r in refs:
        out.append(lines[r - 1])
        renum[r] = len(out)
    if ev.get('e') == 'op':
        for o in ev['o']:
            for k in ('pre', 'post'):
                if o[k] > 0:
                    o[k] = renum[o[k]]
        ev['stray'] = [renum[s] for s in ev.get('stray', [])]
        for k, v in list(ev.get('p', {}).items()):
            if k.startswith('L_') and isinstance(v, int) and v > 0:
                ev['p'][k] = renum[v]
        out.append(json.dumps(ev, separators=(',', ':')))
    else:
        # crash: keep the call marker that precedes it
        j = ln - 1
        while j > 0 and not lines[j - 1].startswith('{"e":"call"'):
            j -= 1
        if j > 0:
            out.append(lines[j - 1])
        out.append(lines[ln - 1])
    case = ev.get('case', -1)
    name = '%s_%s_%s_case%s_%d' % (prop, job.label.replace('/', '_').replace('@', '_'), ev.get('op', 'crash'), case, ln)
    path = '%s/replays/%s.ndjson' % (V, name)
    hdr = {'e': 'replay', 'property': prop, 'cfg': job.cfg, 'family': job.family, 'args': [str(x) for x in job.args], 'seed': seed, 'tier': tier,
           'case': case, 'reasons': reasons, 'spec': job.spec,
           'rerun': '%s drive %s --out /tmp/r.ndjson --seed %d --tier %s --only %s %s' % (vh(job.cfg), job.family, seed, tier, case, ' '.join(str(x) for x in job.args))}
    with open(path, 'w') as f:
        f.write('\n'.join(out) + '\n' + json.dumps(hdr) + '\n')
    return path


def parse_mc(o):
    m = re.search(r'(\d+) states generated, (\d+) distinct states found', o)
    st = (int(m.group(1)), int(m.group(2))) if m else (0, 0)
    viol = None
    m = re.search(r'Error: Invariant (\S+) is violated', o)
    if m:
        viol = 'invariant ' + m.group(1)
    m2 = re.search(r'Error: Action property (\S+) is violated|Error: Temporal properties were violated', o)
    if m2:
        viol = m2.group(0)
    if re.search(r'Error: Deadlock reached', o):
        viol = 'deadlock'
    return st, viol


def run_mc(module, cfg=None, workers=8, timeout=900, xmx='8g', extra=None, cwd=None, env=None):
    """bounded model check of spec/mc/<module>.tla; returns dict(states, distinct, violation, out)"""
    cwd = cwd or (V + '/spec/mc')
    cfg = cfg or module
    meta = os.path.join(BUILD, 'meta', '%s_%s_%d' % (module, os.path.basename(cfg), os.getpid()))
    shutil.rmtree(meta, ignore_errors=True)
    e = {'JAVA_TOOL_OPTIONS': '-Xss512m -Xmx%s -XX:+UseParallelGC' % xmx, 'TLC_TIMEOUT': str(timeout)}
    if env:
        e.update(env)
    t = time.time()
    rc, o = sh([V + '/bin/tlc.sh', '%s/%s.tla' % (cwd, module), '%s/%s.cfg' % (cwd, cfg), meta, '-workers', str(workers)] + (extra or []),
               env=e, cwd=cwd, timeout=timeout + 30)
    shutil.rmtree(meta, ignore_errors=True)
    (gen, dist), viol = parse_mc(o)
    ok = 'Model checking completed. No error has been found.' in o or 'Finished in' in o
    if viol is None and (rc != 0 or not ok):
        raise Infra('TLC failed on %s/%s (rc=%d):\n%s' % (module, cfg, rc, o[-3000:]))
    cov = {}
    return {'module': module, 'cfg': cfg, 'generated': gen, 'distinct': dist, 'violation': viol, 'out': o, 'secs': time.time() - t, 'coverage': cov}


def load_known():
    p = V + '/known_findings.json'
    if not os.path.exists(p):
        return []
    return json.load(open(p)).get('findings', [])


def match_known(known, prop, sig):
    """sig: dict describing a rejection (op, reasons, params, dims, cfg...). A finding matches when
    every key of its 'match' agrees (lists = membership, {'min','max'} = range on a derived value)"""
    for k in known:
        if k.get('status') == 'fixed' or k['property'] != prop:
            continue
        ok = True
        for key, want in k['match'].items():
            have = sig.get(key)
            if isinstance(want, dict):
                if have is None or not (want.get('min', -10**9) <= have <= want.get('max', 10**9)):
                    ok = False
            elif isinstance(want, list):
                if isinstance(have, list):
                    if not set(have) & set(want):
                        ok = False
                elif have not in want:
                    ok = False
            elif have != want:
                ok = False
        if ok:
            return k
    return None


def write_evidence(prop, tier, seed, level, coverage, wall, violations, assumptions):
    # evidence/ describes runs against /repo itself; a run against another source tree (VERIF_SRC: bin/seedtest.sh on a
    # scratch worktree with a seeded change) leaves its record next to its build output instead
    edir = V + '/evidence'
    src = os.environ.get('VERIF_SRC')
    if src and os.path.realpath(src) != '/repo':
        edir = os.environ.get('VERIF_BUILD', '/tmp') + '/evidence'
    os.makedirs(edir, exist_ok=True)
    ev = {'property_id': prop, 'tier': tier, 'seed': seed, 'level': level, 'coverage': coverage,
          'assumptions': assumptions, 'wall_s': round(wall, 1), 'violations': violations}
    tmp = '%s/%s.json.tmp' % (edir, prop)
    with open(tmp, 'w') as f:
        json.dump(ev, f, indent=1)
    os.replace(tmp, '%s/%s.json' % (edir, prop))
