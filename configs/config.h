/* m4ri/config.h.  Generated from config.h.in by configure.  */
/* m4ri/config.h.in.  Generated from configure.ac by autoheader.  */

/* Define to 1 to support Advanced Bit Manipulation */
#define HAVE_ABM 1

/* Define to 1 to support Multi-Precision Add-Carry Instruction Extensions */
#define HAVE_ADX 1

/* Define to 1 to support Advanced Encryption Standard New Instruction Set
   (AES-NI) */
#define HAVE_AES 1

/* Support Altivec instructions */
/* #undef HAVE_ALTIVEC */

/* Define to 1 to support Advanced Vector Extensions */
#define HAVE_AVX 1

/* Define to 1 to support Advanced Vector Extensions 2 */
#define HAVE_AVX2 1

/* Define to 1 to support AVX-512 Byte and Word Instructions */
#define HAVE_AVX512_BW 1

/* Define to 1 to support AVX-512 Conflict Detection Instructions */
#define HAVE_AVX512_CD 1

/* Define to 1 to support AVX-512 Doubleword and Quadword Instructions */
#define HAVE_AVX512_DQ 1

/* Define to 1 to support AVX-512 Exponential & Reciprocal Instructions */
/* #undef HAVE_AVX512_ER */

/* Define to 1 to support AVX-512 Foundation Extensions */
#define HAVE_AVX512_F 1

/* Define to 1 to support AVX-512 Integer Fused Multiply Add Instructions */
#define HAVE_AVX512_IFMA 1

/* Define to 1 to support AVX-512 Conflict Prefetch Instructions */
/* #undef HAVE_AVX512_PF */

/* Define to 1 to support AVX-512 Vector Byte Manipulation Instructions */
#define HAVE_AVX512_VBMI 1

/* Define to 1 to support AVX-512 Vector Length Extensions */
#define HAVE_AVX512_VL 1

/* Define to 1 to support Bit Manipulation Instruction Set 1 */
#define HAVE_BMI1 1

/* Define to 1 to support Bit Manipulation Instruction Set 2 */
#define HAVE_BMI2 1

/* Define to 1 if you have the <dlfcn.h> header file. */
#define HAVE_DLFCN_H 1

/* Define to 1 to support Fused Multiply-Add Extensions 3 */
#define HAVE_FMA3 1

/* Define to 1 to support Fused Multiply-Add Extensions 4 */
/* #undef HAVE_FMA4 */

/* Define to 1 if you have the <inttypes.h> header file. */
#define HAVE_INTTYPES_H 1

/* Define when libpapi is available. */
/* #undef HAVE_LIBPAPI */

/* Define to 1 to support Multimedia Extensions */
#define HAVE_MMX 1

/* Support aligned allocations */
#define HAVE_MM_MALLOC /**/

/* Define to 1 to support Memory Protection Extensions */
/* #undef HAVE_MPX */

/* Define if OpenMP is enabled */
/* #undef HAVE_OPENMP */

/* Define to 1 if `posix_memalign' works. */
#define HAVE_POSIX_MEMALIGN 1

/* Define to 1 to support Prefetch Vector Data Into Caches WT1 */
/* #undef HAVE_PREFETCHWT1 */

/* Define to 1 to support Digital Random Number Generator */
#define HAVE_RDRND 1

/* Define to 1 to support Secure Hash Algorithm Extension */
#define HAVE_SHA 1

/* Define to 1 to support Streaming SIMD Extensions */
#define HAVE_SSE 1

/* Define to 1 to support Streaming SIMD Extensions */
#define HAVE_SSE2 1

/* Define to 1 to support Streaming SIMD Extensions 3 */
#define HAVE_SSE3 1

/* Define to 1 to support Streaming SIMD Extensions 4.1 */
#define HAVE_SSE4_1 1

/* Define to 1 to support Streaming SIMD Extensions 4.2 */
#define HAVE_SSE4_2 1

/* Define to 1 to support AMD Streaming SIMD Extensions 4a */
/* #undef HAVE_SSE4a */

/* Define to 1 to support Supplemental Streaming SIMD Extensions 3 */
#define HAVE_SSSE3 1

/* Define to 1 if you have the <stdint.h> header file. */
#define HAVE_STDINT_H 1

/* Define to 1 if you have the <stdio.h> header file. */
#define HAVE_STDIO_H 1

/* Define to 1 if you have the <stdlib.h> header file. */
#define HAVE_STDLIB_H 1

/* Define to 1 if you have the <strings.h> header file. */
#define HAVE_STRINGS_H 1

/* Define to 1 if you have the <string.h> header file. */
#define HAVE_STRING_H 1

/* Define to 1 if you have the <sys/stat.h> header file. */
#define HAVE_SYS_STAT_H 1

/* Define to 1 if you have the <sys/types.h> header file. */
#define HAVE_SYS_TYPES_H 1

/* Define to 1 if you have the <unistd.h> header file. */
#define HAVE_UNISTD_H 1

/* Support VSX instructions */
/* #undef HAVE_VSX */

/* Define to 1 to support eXtended Operations Extensions */
/* #undef HAVE_XOP */

/* Define to the sub-directory where libtool stores uninstalled libraries. */
#define LT_OBJDIR ".libs/"

/* Define to indicate that m4ri is being built instead of being used */
#define M4RI_BUILDING_M4RI 1

/* define whether debugging is enabled */
#define NDEBUG 1

/* Name of package */
#define PACKAGE "m4ri"

/* Define to the address where bug reports for this package should be sent. */
#define PACKAGE_BUGREPORT ""

/* Define to the full name of this package. */
#define PACKAGE_NAME "m4ri"

/* Define to the full name and version of this package. */
#define PACKAGE_STRING "m4ri 20240729"

/* Define to the one symbol short name of this package. */
#define PACKAGE_TARNAME "m4ri"

/* Define to the home page for this package. */
#define PACKAGE_URL ""

/* Define to the version of this package. */
#define PACKAGE_VERSION "20240729"

/* Define to 1 if all of the C90 standard headers exist (not just the ones
   required in a freestanding environment). This macro is provided for
   backward compatibility; new code need not use it. */
#define STDC_HEADERS 1

/* Version number of package */
#define VERSION "20240729"
