------------------------------ MODULE MC_TRSM ------------------------------
(***************************************************************************)
(* For ALL n x n matrices T up to MaxN (arbitrary content in the opposite   *)
(* triangle and on the diagonal) and, by linearity in B, every single-entry *)
(* right-hand side plus a dense one: each of the four recursions returns X  *)
(* with Tri(T)*X = B resp. X*Tri(T) = B where Tri takes the named triangle   *)
(* with a unit diagonal (the predicate Ops!TrsmOK that judges the real code).*)
(***************************************************************************)
EXTENDS Ops, TRSM, TLC
CONSTANTS MaxN, BW
VARIABLE cs
vars == <<cs>>
Init == cs = [ph |-> 0]
Next ==
  \/ cs.ph = 0 /\ \E n \in 1 .. MaxN : \E t \in 0 .. 2 ^ (n * n) - 1 : cs' = [ph |-> 1, n |-> n, t |-> t]
  \/ cs.ph = 1 /\ \E bi \in 0 .. cs.n * BW : cs' = [cs EXCEPT !.ph = 2] @@ [bi |-> bi]
Spec == Init /\ [][Next]_vars
MatIdx(m, n, x) == Mat(m, n, [i \in 0 .. m - 1 |-> {c \in 0 .. n - 1 : (x \div (2 ^ (i * n + c))) % 2 = 1}])
RhsL(n, bi) == IF bi = 0 THEN Pat(n, BW, 2) ELSE Mat(n, BW, [r \in 0 .. n - 1 |-> IF r = (bi - 1) \div BW THEN {(bi - 1) % BW} ELSE {}])
TrsmAlgOK ==
  cs.ph = 2 =>
    LET T == MatIdx(cs.n, cs.n, cs.t)  BL == RhsL(cs.n, cs.bi)  BR == Transpose(BL) IN
    /\ TrsmOK("trsm_lower_left", T, BL, LowerLeft(T, BL))
    /\ TrsmOK("trsm_upper_left", T, BL, UpperLeft(T, BL))
    /\ TrsmOK("trsm_upper_right", T, BR, UpperRight(T, BR))
    /\ TrsmOK("trsm_lower_right", T, BR, LowerRight(T, BR))
    \* the table-based middle regime: k = 1, 2 with 1, 2, 3 tables (blocks of 1 .. 6 rows, tails of every length)
    /\ \A k \in 1 .. 2, nt \in 1 .. 3 :
          /\ TrsmOK("trsm_lower_left", T, BL, LowerLeftRussian(T, BL, k, nt))
          /\ TrsmOK("trsm_upper_left", T, BL, UpperLeftRussian(T, BL, k, nt))
=============================================================================
