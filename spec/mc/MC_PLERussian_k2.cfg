SPECIFICATION Spec
INVARIANT RussianOK
INVARIANT ELemma
CONSTANTS
  WB = 4
  K = 2
  NT = 2
  SB = 1
  SHAPES <- NoShapes
  BIG <- BigFull
  PATS = 400
CHECK_DEADLOCK FALSE
