---- MODULE MC_Strassen_TTrace_1790981357 ----
EXTENDS Sequences, TLCExt, MC_Strassen, Toolbox, Naturals, TLC

_expression ==
    LET MC_Strassen_TEExpression == INSTANCE MC_Strassen_TEExpression
    IN MC_Strassen_TEExpression!expression
----

_trace ==
    LET MC_Strassen_TETrace == INSTANCE MC_Strassen_TETrace
    IN MC_Strassen_TETrace!trace
----

_inv ==
    ~(
        TLCGet("level") = Len(_TETrace)
        /\
        cs = ([m |-> 3, n |-> 3, ph |-> 1, k |-> 3, c |-> 2])
    )
----

_init ==
    /\ cs = _TETrace[1].cs
----

_next ==
    /\ \E i,j \in DOMAIN _TETrace:
        /\ \/ /\ j = i + 1
              /\ i = TLCGet("level")
        /\ cs  = _TETrace[i].cs
        /\ cs' = _TETrace[j].cs

\* Uncomment the ASSUME below to write the states of the error trace
\* to the given file in Json format. Note that you can pass any tuple
\* to `JsonSerialize`. For example, a sub-sequence of _TETrace.
    \* ASSUME
    \*     LET J == INSTANCE Json
    \*         IN J!JsonSerialize("MC_Strassen_TTrace_1790981357.json", _TETrace)

=============================================================================

 Note that you can extract this module `MC_Strassen_TEExpression`
  to a dedicated file to reuse `expression` (the module in the 
  dedicated `MC_Strassen_TEExpression.tla` file takes precedence 
  over the module `MC_Strassen_TEExpression` below).

---- MODULE MC_Strassen_TEExpression ----
EXTENDS Sequences, TLCExt, MC_Strassen, Toolbox, Naturals, TLC

expression == 
    [
        \* To hide variables of the `MC_Strassen` spec from the error trace,
        \* remove the variables below.  The trace will be written in the order
        \* of the fields of this record.
        cs |-> cs
        
        \* Put additional constant-, state-, and action-level expressions here:
        \* ,_stateNumber |-> _TEPosition
        \* ,_csUnchanged |-> cs = cs'
        
        \* Format the `cs` variable as Json value.
        \* ,_csJson |->
        \*     LET J == INSTANCE Json
        \*     IN J!ToJson(cs)
        
        \* Lastly, you may build expressions over arbitrary sets of states by
        \* leveraging the _TETrace operator.  For example, this is how to
        \* count the number of times a spec variable changed up to the current
        \* state in the trace.
        \* ,_csModCount |->
        \*     LET F[s \in DOMAIN _TETrace] ==
        \*         IF s = 1 THEN 0
        \*         ELSE IF _TETrace[s].cs # _TETrace[s-1].cs
        \*             THEN 1 + F[s-1] ELSE F[s-1]
        \*     IN F[_TEPosition - 1]
    ]

=============================================================================



Parsing and semantic processing can take forever if the trace below is long.
 In this case, it is advised to uncomment the module below to deserialize the
 trace from a generated binary file.

\*
\*---- MODULE MC_Strassen_TETrace ----
\*EXTENDS IOUtils, MC_Strassen, TLC
\*
\*trace == IODeserialize("MC_Strassen_TTrace_1790981357.bin", TRUE)
\*
\*=============================================================================
\*

---- MODULE MC_Strassen_TETrace ----
EXTENDS MC_Strassen, TLC

trace == 
    <<
    ([cs |-> [ph |-> 0]]),
    ([cs |-> [m |-> 3, n |-> 3, ph |-> 1, k |-> 3, c |-> 2]])
    >>
----


=============================================================================

---- CONFIG MC_Strassen_TTrace_1790981357 ----
CONSTANTS
    WB = 2
    MaxD = 11
    Cutoffs = { 2 , 4 }
    USEOLD = TRUE

INVARIANT
    _inv

CHECK_DEADLOCK
    \* CHECK_DEADLOCK off because of PROPERTY or INVARIANT above.
    FALSE

INIT
    _init

NEXT
    _next

CONSTANT
    _TETrace <- _trace

ALIAS
    _expression
=============================================================================
\* Generated on Fri Oct 02 22:49:18 UTC 2026