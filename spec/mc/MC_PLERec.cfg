SPECIFICATION Spec
INVARIANT PleOK
INVARIANT PluqOK
CONSTANTS
  WB = 2
  CUTW = 2
  BLOCKT = 2
  PIVRULE = "first"
  SHAPES <- ShapesQuick
  BIG <- BigQuick
  PATS = 300
CHECK_DEADLOCK FALSE
