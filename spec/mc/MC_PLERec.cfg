SPECIFICATION Spec
INVARIANT PleOK
INVARIANT PluqOK
INVARIANT PluqNaiveOK
CONSTANTS
  WB = 2
  CUTW = 2
  BLOCKT = 2
  PIVRULE = "first"
  BaseCase <- NaiveBase
  SHAPES <- ShapesQuick
  BIG <- BigQuick
  PATS = 300
CHECK_DEADLOCK FALSE
