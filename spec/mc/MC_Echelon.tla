----------------------------- MODULE MC_Echelon -----------------------------
(***************************************************************************)
(* For ALL matrices up to 3x4 / 4x3 (and 2x5), k in {1,2}, both values of   *)
(* `full`: the transcribed M4RI elimination returns the rank and an echelon *)
(* form accepted by Ops!EchelonOK - the predicate that judges the real code *)
(* (exact RREF when full, otherwise a row echelon form of the same row      *)
(* space).  KM = 1, 2 makes the block loop, incomplete blocks and the       *)
(* find_pivot continuation reachable at these sizes.  The table split sizes *)
(* add up to the block size for every k = 1..8 and kbar = 1..6k.            *)
(***************************************************************************)
EXTENDS Ops, Echelon, TLC
VARIABLE cs
vars == <<cs>>
Dims == {<<1, 1>>, <<2, 2>>, <<2, 3>>, <<3, 2>>, <<3, 3>>, <<3, 4>>, <<4, 3>>, <<2, 5>>}
Init == cs = [ph |-> 0]
Next ==
  \/ cs.ph = 0 /\ \E d \in Dims, k \in 1 .. 2, full \in BOOLEAN : cs' = [ph |-> 1, d |-> d, k |-> k, full |-> full]
  \/ cs.ph = 1 /\ \E a \in 0 .. 2 ^ (cs.d[1] * cs.d[2]) - 1 : cs' = [cs EXCEPT !.ph = 2] @@ [a |-> a]
Spec == Init /\ [][Next]_vars
MatIdx(m, n, x) == Mat(m, n, [i \in 0 .. m - 1 |-> {c \in 0 .. n - 1 : (x \div (2 ^ (i * n + c))) % 2 = 1}])
EchelonAlgOK ==
  cs.ph = 2 =>
    LET A == MatIdx(cs.d[1], cs.d[2], cs.a)  res == EchelonM4RI(A, cs.full, cs.k)
    IN EchelonOK(A, res.A, res.rank, IF cs.full THEN 1 ELSE 0)
\* completing ANY row echelon form (here: every input that happens to be one, and the non-reduced output of the elimination)
TopAlgOK ==
  cs.ph = 2 =>
    LET A == MatIdx(cs.d[1], cs.d[2], cs.a)  E == EchelonM4RI(A, FALSE, cs.k).A IN
    /\ IsREF(A) => Eq(TopEchelonM4RI(A, cs.k).A, RREF(A))
    /\ IsREF(E) /\ Eq(TopEchelonM4RI(E, cs.k).A, RREF(A))
SplitOK == cs.ph = 0 => \A k \in 1 .. 8 : \A kbar \in 1 .. 6 * k : SumSeq(SplitSizes(kbar, NTab(kbar, k))) = kbar /\ \A t \in 1 .. NTab(kbar, k) : SplitSizes(kbar, NTab(kbar, k))[t] <= k
=============================================================================
