SPECIFICATION Spec
INVARIANT EchelonAlgOK
INVARIANT SplitOK
CONSTANT KM = 2
CHECK_DEADLOCK FALSE
