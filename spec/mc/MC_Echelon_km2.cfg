SPECIFICATION Spec
INVARIANT EchelonAlgOK
INVARIANT TopAlgOK
INVARIANT SplitOK
CONSTANT KM = 2
CHECK_DEADLOCK FALSE
