SPECIFICATION Spec
INVARIANT TilesOK
CONSTANTS
  BS = 2
  MaxDim = 45
CHECK_DEADLOCK FALSE
