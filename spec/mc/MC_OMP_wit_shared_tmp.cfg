SPECIFICATION Spec
INVARIANT SameAsSequential
CONSTANTS
  T = 2
  QuadOf <- Identity
  R = 4
  CH = 1
  PRIVATE = FALSE
CHECK_DEADLOCK FALSE
