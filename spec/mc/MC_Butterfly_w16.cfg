SPECIFICATION Spec
INVARIANT ButterflyOK
CONSTANTS
  W = 16
  FULL = FALSE
CHECK_DEADLOCK FALSE
