--------------------------- MODULE MC_EchelonPluq ---------------------------
(***************************************************************************)
(* For ALL matrices of the shapes in SHAPES (word size WB = 2: ranks 1 and  *)
(* 3 are not multiples of the word size, so the copy / copy-back branch is  *)
(* taken, with and without a further window to the right) plus PATS pattern *)
(* matrices of the larger shapes in BIG: mzd_echelonize_pluq as modelled    *)
(* returns the rank and the unique RREF (full) resp. a row echelon form of  *)
(* the same row space.  Witnesses: each of the three branches on r is       *)
(* reachable.                                                               *)
(***************************************************************************)
EXTENDS EchelonPluq, TLC
CONSTANTS SHAPES, BIG, PATS
ShapesQuick == {<<1, 1>>, <<2, 2>>, <<2, 3>>, <<3, 3>>, <<2, 4>>, <<3, 4>>, <<4, 3>>, <<2, 5>>}
ShapesFull == ShapesQuick \cup {<<4, 4>>, <<3, 5>>, <<5, 3>>}
BigQuick == {<<5, 6>>, <<4, 7>>}
BigFull == {<<5, 6>>, <<4, 7>>, <<7, 6>>, <<6, 9>>}
NaiveBase(A) == Base(A)
VARIABLE cs
vars == <<cs>>
Init == cs = [ph |-> 0]
Next ==
  \/ cs.ph = 0 /\ \E s \in SHAPES : cs' = [ph |-> 1, m |-> s[1], n |-> s[2], lo |-> 0, hi |-> 2 ^ (s[1] * s[2]) - 1, pat |-> FALSE]
  \/ cs.ph = 0 /\ \E s \in BIG : cs' = [ph |-> 1, m |-> s[1], n |-> s[2], lo |-> 0, hi |-> PATS - 1, pat |-> TRUE]
  \/ cs.ph = 1 /\ \E x \in cs.lo .. cs.hi : cs' = [cs EXCEPT !.ph = 2] @@ [x |-> x]
Spec == Init /\ [][Next]_vars
MatIdx(m, n, x) == Mat(m, n, [i \in 0 .. m - 1 |-> {c \in 0 .. n - 1 : (x \div (2 ^ (i * n + c))) % 2 = 1}])
PatMat(m, n, x) ==
  LET B == Pat(m, n, x + 3)
      z == IF x % 3 = 0 THEN {c \in 0 .. n - 1 : (c + x) % 4 < 2} ELSE {}
  IN Mat(m, n, [i \in 0 .. m - 1 |-> (IF x % 5 = 0 /\ i > 0 /\ i % 2 = 1 THEN B.r[i - 1] ELSE B.r[i]) \ z])
Input == IF cs.pat THEN PatMat(cs.m, cs.n, cs.x) ELSE MatIdx(cs.m, cs.n, cs.x)
FullOK == cs.ph = 2 => LET A == Input  R == EchelonPluqFull(A) IN R.rank = Rank(A) /\ Eq(R.A, RREF(A)) /\ EchelonOK(A, R.A, R.rank, 1)
NotFullOK == cs.ph = 2 => LET A == Input  R == EchelonPluqNF(A) IN EchelonOK(A, R.A, R.rank, 0)
\* ---- witnesses (each is EXPECTED to be violated) ----
Branch(A) == LET r == Pluq(A).r  rr == WB * (r \div WB) IN
             IF r = 0 \/ r = A.n THEN "none" ELSE IF rr = r THEN "aligned" ELSE IF A.n > rr + WB THEN "copy+window" ELSE "copy"
WitNoAligned == cs.ph = 2 => Branch(Input) # "aligned"
WitNoCopy == cs.ph = 2 => Branch(Input) # "copy"
WitNoCopyWindow == cs.ph = 2 => Branch(Input) # "copy+window"
=============================================================================
