SPECIFICATION Spec
INVARIANT SplitInv
CONSTANTS
  WB = 2
  MaxD = 11
  Cutoffs = {2, 4}
  USEOLD = TRUE
CHECK_DEADLOCK FALSE
