---------------------------- MODULE MC_MzdWords ----------------------------
(***************************************************************************)
(* Exhaustive check of the word-level transcriptions (alg/MzdWords.tla)     *)
(* against the GF(2)-level semantics (Ops.tla) for W = 2: a source region   *)
(* of 2 rows x 3 words with ALL 4096 contents, every window placement in    *)
(* it (row offset, word offset, width 1..6 columns incl. widths that leave  *)
(* foreign bits in the last word), destinations that are windows into a     *)
(* second region filled with zeros / ones / a pattern.  Invariants: result  *)
(* = specification, no bit outside the destination view changes (C09),      *)
(* owners keep zero excess bits (C10), read_bits touches the second word    *)
(* only if the span crosses into it (C11).                                  *)
(***************************************************************************)
EXTENDS Ops, MzdWords

CONSTANT KINDS   \* the kinds of primitives checked by this configuration (a subset of Kinds)
CONSTANT FULL    \* TRUE: all 4096 contents of the source region x 3 destination fills; FALSE: complete single-bit basis
VARIABLE cs
vars == <<cs>>

\* two regions: source region at addresses 0..5 (2 rows x 3 words), destination region at 10..21 (4 rows x 3 words)
SRC == [base |-> 0, nrows |-> 2, ncols |-> 3 * W, rowstride |-> 3]
DSTR == [base |-> 10, nrows |-> 4, ncols |-> 3 * W, rowstride |-> 3]
Addrs == (0 .. 5) \cup (10 .. 21)

\* memory: source region from the bits of index a, destination region from fill f
MemOf(a, f) ==
  [x \in Addrs |->
     IF x <= 5 THEN {b \in Bits : (a \div (2 ^ (x * W + b))) % 2 = 1}
     ELSE CASE f = 0 -> {} [] f = 1 -> Bits [] OTHER -> {b \in Bits : (x + b) % 2 = 0}]

Win(R, r0, w0, m, n) == [base |-> R.base + r0 * R.rowstride + w0, nrows |-> m, ncols |-> n, rowstride |-> R.rowstride]
SrcWins == {Win(SRC, r0, w0, m, n) : r0 \in 0 .. 1, w0 \in 0 .. 2, m \in 1 .. 2, n \in 1 .. 3 * W} 
ValidSrc(Wn) == LET r0 == (Wn.base - SRC.base) \div 3  w0 == (Wn.base - SRC.base) % 3 IN r0 + Wn.nrows <= 2 /\ w0 * W + Wn.ncols <= 3 * W
DstWin(r0, w0, m, n) == Win(DSTR, r0, w0, m, n)
FitsDst(r0, w0, m, n) == r0 + m <= 4 /\ w0 * W + n <= 3 * W

MatOf(mem, M) == Mat(M.nrows, M.ncols, ValueOf(mem, M))

\* frame: every <<address, bit>> outside the view of D is unchanged
FrameOK(m0, m1, D) == \A x \in Addrs : \A b \in Bits : (<<x, b>> \notin ViewBits(D)) => ((b \in m0[x]) <=> (b \in m1[x]))
NoChange(m0, m1) == \A x \in Addrs : m0[x] = m1[x]

Kinds == {"perm", "copy", "row_swap", "row_add_offset", "row_clear_offset", "bits", "concat", "stack", "submatrix", "set_ui", "add", "observers"}

\* per-kind check for source window S (in the source region) and memory index a, destination fill f
CheckCopy(S, m0) ==
  \A r0 \in 0 .. 1, w0 \in 0 .. 1, em \in 0 .. 1, en \in {0, 1, W} :
     FitsDst(r0, w0, S.nrows + em, S.ncols + en) =>
       LET D == DstWin(r0, w0, S.nrows + em, S.ncols + en)
           m1 == MzdCopy(m0, D, S)
       IN Eq(MatOf(m1, D), CopySem(MatOf(m0, D), MatOf(m0, S))) /\ FrameOK(m0, m1, D)

CheckRowSwap(S, m0) ==
  \A a \in 0 .. S.nrows - 1, b \in 0 .. S.nrows - 1 :
     LET m1 == WRowSwap(m0, S, a, b) IN Eq(MatOf(m1, S), RowSwapSem(MatOf(m0, S), a, b)) /\ FrameOK(m0, m1, S)

CheckRowAddOffset(S, m0) ==
  S.nrows = 2 =>
  \A off \in 0 .. S.ncols - 1, d \in 0 .. 1 :
     LET m1 == RowAddOffset(m0, S, d, 1 - d, off)
     IN Eq(MatOf(m1, S), RowAddOffsetSem(MatOf(m0, S), d, 1 - d, off)) /\ FrameOK(m0, m1, S)

CheckRowClearOffset(S, m0) ==
  \A row \in 0 .. S.nrows - 1, off \in 0 .. S.ncols - 1 :
     LET m1 == RowClearOffset(m0, S, row, off)
     IN Eq(MatOf(m1, S), RowClearOffsetSem(MatOf(m0, S), row, off)) /\ FrameOK(m0, m1, S)

CheckBits(S, m0) ==
  \A x \in 0 .. S.nrows - 1, y \in 0 .. S.ncols - 1, n \in 1 .. W :
     (y + n <= S.ncols) =>
       /\ ReadBits(m0, S, x, y, n) = ReadBitsSem(MatOf(m0, S), x, y, n)
       /\ ReadBitsAddrs(S, x, y, n) \subseteq RowAddrs(S, x)
       /\ LET m1 == ClearBits(m0, S, x, y, n) IN Eq(MatOf(m1, S), ClearBitsSem(MatOf(m0, S), x, y, n)) /\ FrameOK(m0, m1, S)
       /\ \A v \in SUBSET (0 .. n - 1) :
            /\ LET m1 == XorBits(m0, S, x, y, n, v) IN Eq(MatOf(m1, S), XorBitsSem(MatOf(m0, S), x, y, n, v)) /\ FrameOK(m0, m1, S)
            /\ LET m1 == AndBits(m0, S, x, y, n, v) IN Eq(MatOf(m1, S), AndBitsSem(MatOf(m0, S), x, y, n, v)) /\ FrameOK(m0, m1, S)

\* second source for binary operations: the window with the same shape in the other row block / word offset of SRC
CheckConcat(S, m0) ==
  \A bw \in 0 .. 2, bn \in 1 .. W + 1, r0 \in 0 .. 1, w0 \in 0 .. 1 :
     LET B == Win(SRC, 0, bw, S.nrows, bn) IN
     (ValidSrc(B) /\ FitsDst(r0, w0, S.nrows, S.ncols + bn)) =>
       LET D == DstWin(r0, w0, S.nrows, S.ncols + bn)
           m1 == MzdConcat(m0, D, S, B)
       IN Eq(MatOf(m1, D), ConcatSem(MatOf(m0, S), MatOf(m0, B))) /\ FrameOK(m0, m1, D)

CheckStack(S, m0) ==
  \A bw \in 0 .. 2, bm \in 1 .. 2, r0 \in 0 .. 1, w0 \in 0 .. 1 :
     LET B == Win(SRC, 0, bw, bm, S.ncols) IN
     (ValidSrc(B) /\ FitsDst(r0, w0, S.nrows + bm, S.ncols)) =>
       LET D == DstWin(r0, w0, S.nrows + bm, S.ncols)
           m1 == MzdStack(m0, D, S, B)
       IN Eq(MatOf(m1, D), StackSem(MatOf(m0, S), MatOf(m0, B))) /\ FrameOK(m0, m1, D)

CheckSubmatrix(S, m0) ==
  \A lr \in 0 .. S.nrows - 1, lc \in 0 .. S.ncols - 1, hr \in 1 .. S.nrows, hc \in 1 .. S.ncols, r0 \in 0 .. 1, w0 \in 0 .. 1 :
     (lr < hr /\ lc < hc /\ FitsDst(r0, w0, hr - lr, hc - lc)) =>
       LET D == DstWin(r0, w0, hr - lr, hc - lc)
           m1 == MzdSubmatrix(m0, D, S, lr, lc, hr, hc)
       IN Eq(MatOf(m1, D), SubmatrixSem(MatOf(m0, S), lr, lc, hr, hc)) /\ FrameOK(m0, m1, D)

CheckSetUi(S, m0) ==
  \A v \in 0 .. 1 : LET m1 == SetUi(m0, S, v) IN Eq(MatOf(m1, S), SetUiSem(MatOf(m0, S), v)) /\ FrameOK(m0, m1, S)

CheckAdd(S, m0) ==
  \A bw \in 0 .. 2, r0 \in 0 .. 1, w0 \in 0 .. 1 :
     LET B == Win(SRC, 0, bw, S.nrows, S.ncols) IN
     ValidSrc(B) =>
       /\ (FitsDst(r0, w0, S.nrows, S.ncols) =>
             LET D == DstWin(r0, w0, S.nrows, S.ncols)  m1 == MzdAdd(m0, D, S, B)
             IN Eq(MatOf(m1, D), AddSem(MatOf(m0, S), MatOf(m0, B))) /\ FrameOK(m0, m1, D))
       /\ LET m1 == MzdAdd(m0, S, S, B)     \* destination is the first summand
          IN (AllAddrs(S) \cap AllAddrs(B) = {} \/ S = B) =>
               Eq(MatOf(m1, S), AddSem(MatOf(m0, S), MatOf(m0, B))) /\ FrameOK(m0, m1, S)

CheckObservers(S, m0) ==
  /\ WIsZero(m0, S) <=> (IsZeroSem(MatOf(m0, S)) = 1)
  /\ WFirstZeroRow(m0, S) = FirstZeroRowSem(MatOf(m0, S))
  /\ \A bw \in 0 .. 2 : LET B == Win(SRC, 0, bw, S.nrows, S.ncols) IN ValidSrc(B) => (WEqual(m0, S, B) <=> (EqualSem(MatOf(m0, S), MatOf(m0, B)) = 1))

\* all LAPACK swap sequences of the window's column count (and the ones shorter by one), both directions, start rows 0 and 1
LapackPerms(len, n) == {p \in [1 .. len -> 0 .. n - 1] : \A i \in 1 .. len : p[i] >= i - 1 /\ p[i] < len}
CheckPerm(S, m0) ==
  S.ncols <= 5 =>
  \A len \in {S.ncols, S.ncols - 1} : len >= 1 =>
    \A P \in LapackPerms(len, S.ncols), sr \in 0 .. 1 :
       /\ LET m1 == ApplyPRightEven(m0, S, P, TRUE, sr)
              want == IF sr >= S.nrows THEN MatOf(m0, S) ELSE Embed(MatOf(m0, S), sr, 0, ApplyPRightSem(Sub(MatOf(m0, S), sr, 0, S.nrows - sr, S.ncols), P))
          IN Eq(MatOf(m1, S), want) /\ FrameOK(m0, m1, S)
       /\ LET m1 == ApplyPRightEven(m0, S, P, FALSE, sr)
              want == IF sr >= S.nrows THEN MatOf(m0, S) ELSE Embed(MatOf(m0, S), sr, 0, ApplyPRightTransSem(Sub(MatOf(m0, S), sr, 0, S.nrows - sr, S.ncols), P))
          IN Eq(MatOf(m1, S), want) /\ FrameOK(m0, m1, S)

Check(kind, S, m0) ==
  CASE kind = "copy" -> CheckCopy(S, m0)
    [] kind = "row_swap" -> CheckRowSwap(S, m0)
    [] kind = "row_add_offset" -> CheckRowAddOffset(S, m0)
    [] kind = "row_clear_offset" -> CheckRowClearOffset(S, m0)
    [] kind = "bits" -> CheckBits(S, m0)
    [] kind = "concat" -> CheckConcat(S, m0)
    [] kind = "stack" -> CheckStack(S, m0)
    [] kind = "submatrix" -> CheckSubmatrix(S, m0)
    [] kind = "set_ui" -> CheckSetUi(S, m0)
    [] kind = "add" -> CheckAdd(S, m0)
    [] kind = "observers" -> CheckObservers(S, m0)
    [] kind = "perm" -> CheckPerm(S, m0)

\* Basis contents.  Every primitive except the observers only moves, masks (with masks that do not depend on the
\* contents) and XORs bits, so each output bit is an affine GF(2)-linear function of the memory; the GF(2)-level
\* semantics and the frame condition are linear too.  Agreement on the zero memory and on every memory with a
\* single bit set therefore implies agreement on all memories.  (The observers are checked on all contents, and
\* the FULL configuration re-checks everything on all 4096 x 3 memories without this argument.)
BasisMems == {[x \in Addrs |-> {}], [x \in Addrs |-> Bits]}
             \cup {[x \in Addrs |-> IF x = y THEN {b} ELSE {}] : y \in Addrs, b \in Bits}
\* two-level fan-out: phase 1 picks the kind and the source window, phase 2 the contents
Init == cs = [ph |-> 0]
Next ==
  \/ cs.ph = 0 /\ \E k \in KINDS, S \in {x \in SrcWins : ValidSrc(x)} : cs' = [ph |-> 1, k |-> k, S |-> S]
  \/ cs.ph = 1 /\ (FULL \/ cs.k = "observers") /\ \E a \in 0 .. 2 ^ (6 * W) - 1, f \in (IF cs.k = "observers" THEN {0} ELSE 0 .. 2) :
        cs' = [ph |-> 2, k |-> cs.k, S |-> cs.S, mem |-> MemOf(a, f)]
  \/ cs.ph = 1 /\ ~FULL /\ cs.k # "observers" /\ \E m \in BasisMems : cs' = [ph |-> 2, k |-> cs.k, S |-> cs.S, mem |-> m]
Spec == Init /\ [][Next]_vars
WordsOK == cs.ph = 2 => Check(cs.k, cs.S, cs.mem)
=============================================================================
