SPECIFICATION Spec
INVARIANT DieIffFault
INVARIANT NoUseOfNull
PROPERTY Terminates
CONSTANT N = 12
CHECK_DEADLOCK FALSE
