SPECIFICATION Spec
INVARIANT HybridOK
CONSTANTS
  WB = 2
  CUTW = 2
  BLOCKT = 2
  PIVRULE = "first"
  BaseCase <- NaiveBase
  IsDense <- McIsDense
  TopK <- McTopK
  KM = 1
  GAP = 0
  SHAPES <- ShapesQuick
CHECK_DEADLOCK FALSE
