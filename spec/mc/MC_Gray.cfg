SPECIFICATION Spec
INVARIANT TableOK
INVARIANT StepOK
INVARIANT CodeOK
CONSTANT KMax = 16
CHECK_DEADLOCK FALSE
