------------------------------ MODULE MC_Solve ------------------------------
(***************************************************************************)
(* For ALL systems A (up to 3x3, 2x3, 3x2) and ALL right-hand sides with    *)
(* max(m,n) rows and 1..2 columns - hence every padding-row pattern -: the  *)
(* transcribed solver's verdict and solution satisfy Ops!SolveOK, the       *)
(* kernel construction satisfies Ops!KernelOK, the factorisation satisfies  *)
(* Ops!PLEOK (PLUQ reading), and the recursive triangular inversion         *)
(* satisfies Ops!TrtriOK for all unit upper triangular matrices up to 5x5.  *)
(* With OLDPAD = TRUE (the pinned tree's padding handling) SolveOK is       *)
(* violated: finding F03 at the design level (witness).                     *)
(***************************************************************************)
EXTENDS Solve, TLC
VARIABLE cs
vars == <<cs>>
Dims == {<<1, 1>>, <<2, 2>>, <<3, 3>>, <<2, 3>>, <<3, 2>>, <<1, 3>>, <<3, 1>>}
Init == cs = [ph |-> 0]
Next ==
  \/ cs.ph = 0 /\ \E d \in Dims, w \in 1 .. 2 : \E a \in 0 .. 2 ^ (d[1] * d[2]) - 1 : cs' = [ph |-> 1, t |-> "solve", d |-> d, w |-> w, a |-> a]
  \/ cs.ph = 0 /\ \E nn \in 1 .. 5 : \E a \in 0 .. 2 ^ ((nn * (nn - 1)) \div 2) - 1 : cs' = [ph |-> 2, t |-> "trtri", d |-> <<nn, nn>>, w |-> 0, a |-> a, b |-> 0]
  \/ cs.ph = 1 /\ \E b \in 0 .. 2 ^ (Max({cs.d[1], cs.d[2]}) * cs.w) - 1 : cs' = [cs EXCEPT !.ph = 2] @@ [b |-> b]
Spec == Init /\ [][Next]_vars
MatIdx(m, n, x) == Mat(m, n, [i \in 0 .. m - 1 |-> {c \in 0 .. n - 1 : (x \div (2 ^ (i * n + c))) % 2 = 1}])
\* unit upper triangular matrix from the bits of x (row-major over the strictly upper entries)
UpperIdx(n, x) ==
  LET pos(i, j) == (i * (2 * n - i - 1)) \div 2 + (j - i - 1) IN
  Mat(n, n, [i \in 0 .. n - 1 |-> {i} \cup {j \in i + 1 .. n - 1 : (x \div (2 ^ pos(i, j))) % 2 = 1}])
SolveAlgOK ==
  (cs.ph = 2 /\ cs.t = "solve") =>
    LET A == MatIdx(cs.d[1], cs.d[2], cs.a)
        B == MatIdx(Max({cs.d[1], cs.d[2]}), cs.w, cs.b)
        s == SolveLeft(A, B)
    IN SolveOK(A, B, s.B, s.ret)
FactAlgOK ==
  (cs.ph = 1 /\ cs.t = "solve") =>
    LET A == MatIdx(cs.d[1], cs.d[2], cs.a)  F == Pluq(A)  K == KernelLeftPluq(A) IN
    /\ PLEOK(A, F.LU, F.P, F.Q, F.r, 0)
    /\ KernelOK(A, K.has, K.K)
TrtriAlgOK ==
  (cs.ph = 2 /\ cs.t = "trtri") =>
    LET U == UpperIdx(cs.d[1], cs.a) IN
    /\ TrtriOK(U, Trtri(U, 5, 2)) /\ TrtriOK(U, Trtri(U, 100, 2))
    \* the table-based inversion: 1, 2 and 4 tables of width k = 1, 2 (blocks of up to 4 rows, tails of every length)
    /\ \A k \in 1 .. 2, ntt \in {1, 2, 4} : TrtriOK(U, TrtriRussian(U, k, ntt))
=============================================================================
