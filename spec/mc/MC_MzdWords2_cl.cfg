SPECIFICATION Spec
INVARIANT WordsOK
CONSTANTS
  W = 2
  RM = 4
  RW = 4
  KINDS = {"compress_l"}
CHECK_DEADLOCK FALSE
