SPECIFICATION Spec
INVARIANT WitNoCopy
CONSTANTS
  WB = 2
  CUTW = 2
  BLOCKT = 2
  PIVRULE = "first"
  BaseCase <- NaiveBase
  SHAPES <- ShapesQuick
  BIG <- BigQuick
  PATS = 200
CHECK_DEADLOCK FALSE
