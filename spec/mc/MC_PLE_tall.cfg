SPECIFICATION Spec
INVARIANT LoopInv
INVARIANT FinalOK
CONSTANTS
  MaxM = 4
  MaxN = 3
CHECK_DEADLOCK FALSE
