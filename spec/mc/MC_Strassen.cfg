SPECIFICATION Spec
INVARIANT SplitInv
INVARIANT ScheduleInv
CONSTANTS
  WB = 2
  MaxD = 11
  Cutoffs = {2, 4}
  USEOLD = FALSE
CHECK_DEADLOCK FALSE
