SPECIFICATION Spec
INVARIANT ButterflyOK
CONSTANTS
  W = 4
  FULL = TRUE
CHECK_DEADLOCK FALSE
