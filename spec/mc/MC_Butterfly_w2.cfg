SPECIFICATION Spec
INVARIANT ButterflyOK
CONSTANTS
  W = 2
  FULL = TRUE
CHECK_DEADLOCK FALSE
