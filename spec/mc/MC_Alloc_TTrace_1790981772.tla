---- MODULE MC_Alloc_TTrace_1790981772 ----
EXTENDS Sequences, TLCExt, MC_Alloc, Toolbox, MC_Alloc_TEConstants, Naturals, TLC

_expression ==
    LET MC_Alloc_TEExpression == INSTANCE MC_Alloc_TEExpression
    IN MC_Alloc_TEExpression!expression
----

_trace ==
    LET MC_Alloc_TETrace == INSTANCE MC_Alloc_TETrace
    IN MC_Alloc_TETrace!trace
----

_inv ==
    ~(
        TLCGet("level") = Len(_TETrace)
        /\
        st = ([objs |-> (h1 :> [kind |-> "owner", hb |-> 0, hslot |-> 1, data |-> 0, size |-> 0, parent |-> 0] @@ h2 :> [kind |-> "owner", hb |-> 0, hslot |-> 0, data |-> 1, size |-> 10, parent |-> 0] @@ h3 :> [kind |-> "owner", hb |-> 2, hslot |-> 1, data |-> 0, size |-> 0, parent |-> 0] @@ h4 :> [kind |-> "owner", hb |-> 2, hslot |-> 0, data |-> 0, size |-> 0, parent |-> 0] @@ h5 :> [kind |-> "owner", hb |-> -1, hslot |-> 3, data |-> 0, size |-> 0, parent |-> 0]), evict |-> 0, slots |-> <<[size |-> 0, blk |-> 0], [size |-> 0, blk |-> 0]>>, heap |-> <<10, 2, 1>>, hlist |-> <<[id |-> 0, used |-> {0, 1}], [id |-> 2, used |-> {0, 1}]>>, cur |-> 2])
        /\
        obs = (<<<<"m", "hdr", 1>>>>)
        /\
        last = ("init")
    )
----

_init ==
    /\ last = _TETrace[1].last
    /\ st = _TETrace[1].st
    /\ obs = _TETrace[1].obs
----

_next ==
    /\ \E i,j \in DOMAIN _TETrace:
        /\ \/ /\ j = i + 1
              /\ i = TLCGet("level")
        /\ last  = _TETrace[i].last
        /\ last' = _TETrace[j].last
        /\ st  = _TETrace[i].st
        /\ st' = _TETrace[j].st
        /\ obs  = _TETrace[i].obs
        /\ obs' = _TETrace[j].obs

\* Uncomment the ASSUME below to write the states of the error trace
\* to the given file in Json format. Note that you can pass any tuple
\* to `JsonSerialize`. For example, a sub-sequence of _TETrace.
    \* ASSUME
    \*     LET J == INSTANCE Json
    \*         IN J!JsonSerialize("MC_Alloc_TTrace_1790981772.json", _TETrace)

=============================================================================

 Note that you can extract this module `MC_Alloc_TEExpression`
  to a dedicated file to reuse `expression` (the module in the 
  dedicated `MC_Alloc_TEExpression.tla` file takes precedence 
  over the module `MC_Alloc_TEExpression` below).

---- MODULE MC_Alloc_TEExpression ----
EXTENDS Sequences, TLCExt, MC_Alloc, Toolbox, MC_Alloc_TEConstants, Naturals, TLC

expression == 
    [
        \* To hide variables of the `MC_Alloc` spec from the error trace,
        \* remove the variables below.  The trace will be written in the order
        \* of the fields of this record.
        last |-> last
        ,st |-> st
        ,obs |-> obs
        
        \* Put additional constant-, state-, and action-level expressions here:
        \* ,_stateNumber |-> _TEPosition
        \* ,_lastUnchanged |-> last = last'
        
        \* Format the `last` variable as Json value.
        \* ,_lastJson |->
        \*     LET J == INSTANCE Json
        \*     IN J!ToJson(last)
        
        \* Lastly, you may build expressions over arbitrary sets of states by
        \* leveraging the _TETrace operator.  For example, this is how to
        \* count the number of times a spec variable changed up to the current
        \* state in the trace.
        \* ,_lastModCount |->
        \*     LET F[s \in DOMAIN _TETrace] ==
        \*         IF s = 1 THEN 0
        \*         ELSE IF _TETrace[s].last # _TETrace[s-1].last
        \*             THEN 1 + F[s-1] ELSE F[s-1]
        \*     IN F[_TEPosition - 1]
    ]

=============================================================================



Parsing and semantic processing can take forever if the trace below is long.
 In this case, it is advised to uncomment the module below to deserialize the
 trace from a generated binary file.

\*
\*---- MODULE MC_Alloc_TETrace ----
\*EXTENDS IOUtils, MC_Alloc, MC_Alloc_TEConstants, TLC
\*
\*trace == IODeserialize("MC_Alloc_TTrace_1790981772.bin", TRUE)
\*
\*=============================================================================
\*

---- MODULE MC_Alloc_TETrace ----
EXTENDS MC_Alloc, MC_Alloc_TEConstants, TLC

trace == 
    <<
    ([st |-> [objs |-> (h1 :> [kind |-> "none", hb |-> 0, hslot |-> 0, data |-> 0, size |-> 0, parent |-> 0] @@ h2 :> [kind |-> "none", hb |-> 0, hslot |-> 0, data |-> 0, size |-> 0, parent |-> 0] @@ h3 :> [kind |-> "none", hb |-> 0, hslot |-> 0, data |-> 0, size |-> 0, parent |-> 0] @@ h4 :> [kind |-> "none", hb |-> 0, hslot |-> 0, data |-> 0, size |-> 0, parent |-> 0] @@ h5 :> [kind |-> "none", hb |-> 0, hslot |-> 0, data |-> 0, size |-> 0, parent |-> 0]), evict |-> 0, slots |-> <<[size |-> 0, blk |-> 0], [size |-> 0, blk |-> 0]>>, heap |-> <<>>, hlist |-> <<[id |-> 0, used |-> {}]>>, cur |-> 1],obs |-> <<>>,last |-> "none"]),
    ([st |-> [objs |-> (h1 :> [kind |-> "owner", hb |-> 0, hslot |-> 1, data |-> 0, size |-> 0, parent |-> 0] @@ h2 :> [kind |-> "none", hb |-> 0, hslot |-> 0, data |-> 0, size |-> 0, parent |-> 0] @@ h3 :> [kind |-> "none", hb |-> 0, hslot |-> 0, data |-> 0, size |-> 0, parent |-> 0] @@ h4 :> [kind |-> "none", hb |-> 0, hslot |-> 0, data |-> 0, size |-> 0, parent |-> 0] @@ h5 :> [kind |-> "none", hb |-> 0, hslot |-> 0, data |-> 0, size |-> 0, parent |-> 0]), evict |-> 0, slots |-> <<[size |-> 0, blk |-> 0], [size |-> 0, blk |-> 0]>>, heap |-> <<>>, hlist |-> <<[id |-> 0, used |-> {1}]>>, cur |-> 1],obs |-> <<>>,last |-> "init"]),
    ([st |-> [objs |-> (h1 :> [kind |-> "owner", hb |-> 0, hslot |-> 1, data |-> 0, size |-> 0, parent |-> 0] @@ h2 :> [kind |-> "owner", hb |-> 0, hslot |-> 0, data |-> 1, size |-> 10, parent |-> 0] @@ h3 :> [kind |-> "none", hb |-> 0, hslot |-> 0, data |-> 0, size |-> 0, parent |-> 0] @@ h4 :> [kind |-> "none", hb |-> 0, hslot |-> 0, data |-> 0, size |-> 0, parent |-> 0] @@ h5 :> [kind |-> "none", hb |-> 0, hslot |-> 0, data |-> 0, size |-> 0, parent |-> 0]), evict |-> 0, slots |-> <<[size |-> 0, blk |-> 0], [size |-> 0, blk |-> 0]>>, heap |-> <<10>>, hlist |-> <<[id |-> 0, used |-> {0, 1}]>>, cur |-> 1],obs |-> <<<<"m", "data", 10>>>>,last |-> "init"]),
    ([st |-> [objs |-> (h1 :> [kind |-> "owner", hb |-> 0, hslot |-> 1, data |-> 0, size |-> 0, parent |-> 0] @@ h2 :> [kind |-> "owner", hb |-> 0, hslot |-> 0, data |-> 1, size |-> 10, parent |-> 0] @@ h3 :> [kind |-> "owner", hb |-> 2, hslot |-> 1, data |-> 0, size |-> 0, parent |-> 0] @@ h4 :> [kind |-> "none", hb |-> 0, hslot |-> 0, data |-> 0, size |-> 0, parent |-> 0] @@ h5 :> [kind |-> "none", hb |-> 0, hslot |-> 0, data |-> 0, size |-> 0, parent |-> 0]), evict |-> 0, slots |-> <<[size |-> 0, blk |-> 0], [size |-> 0, blk |-> 0]>>, heap |-> <<10, 2>>, hlist |-> <<[id |-> 0, used |-> {0, 1}], [id |-> 2, used |-> {1}]>>, cur |-> 2],obs |-> <<<<"m", "hblk", 2>>>>,last |-> "init"]),
    ([st |-> [objs |-> (h1 :> [kind |-> "owner", hb |-> 0, hslot |-> 1, data |-> 0, size |-> 0, parent |-> 0] @@ h2 :> [kind |-> "owner", hb |-> 0, hslot |-> 0, data |-> 1, size |-> 10, parent |-> 0] @@ h3 :> [kind |-> "owner", hb |-> 2, hslot |-> 1, data |-> 0, size |-> 0, parent |-> 0] @@ h4 :> [kind |-> "owner", hb |-> 2, hslot |-> 0, data |-> 0, size |-> 0, parent |-> 0] @@ h5 :> [kind |-> "none", hb |-> 0, hslot |-> 0, data |-> 0, size |-> 0, parent |-> 0]), evict |-> 0, slots |-> <<[size |-> 0, blk |-> 0], [size |-> 0, blk |-> 0]>>, heap |-> <<10, 2>>, hlist |-> <<[id |-> 0, used |-> {0, 1}], [id |-> 2, used |-> {0, 1}]>>, cur |-> 2],obs |-> <<>>,last |-> "init"]),
    ([st |-> [objs |-> (h1 :> [kind |-> "owner", hb |-> 0, hslot |-> 1, data |-> 0, size |-> 0, parent |-> 0] @@ h2 :> [kind |-> "owner", hb |-> 0, hslot |-> 0, data |-> 1, size |-> 10, parent |-> 0] @@ h3 :> [kind |-> "owner", hb |-> 2, hslot |-> 1, data |-> 0, size |-> 0, parent |-> 0] @@ h4 :> [kind |-> "owner", hb |-> 2, hslot |-> 0, data |-> 0, size |-> 0, parent |-> 0] @@ h5 :> [kind |-> "owner", hb |-> -1, hslot |-> 3, data |-> 0, size |-> 0, parent |-> 0]), evict |-> 0, slots |-> <<[size |-> 0, blk |-> 0], [size |-> 0, blk |-> 0]>>, heap |-> <<10, 2, 1>>, hlist |-> <<[id |-> 0, used |-> {0, 1}], [id |-> 2, used |-> {0, 1}]>>, cur |-> 2],obs |-> <<<<"m", "hdr", 1>>>>,last |-> "init"])
    >>
----


=============================================================================

---- MODULE MC_Alloc_TEConstants ----
EXTENDS MC_Alloc

CONSTANTS h1, h2, h3, h4, h5

=============================================================================

---- CONFIG MC_Alloc_TTrace_1790981772 ----
CONSTANTS
    NSLOTS = 2
    THRESH = 100
    HB = 2
    MAXB = 2
    HSIZE = 1
    BSIZE = 2
    CACHES = TRUE
    Handles = { h1 , h2 , h3 , h4 , h5 }
    MaxIds = 16
    Sizes = { 0 , 10 , 20 , 100 , 150 }
    Depth = 8
    h4 = h4
    h5 = h5
    h1 = h1
    h3 = h3
    h2 = h2

INVARIANT
    _inv

CHECK_DEADLOCK
    \* CHECK_DEADLOCK off because of PROPERTY or INVARIANT above.
    FALSE

INIT
    _init

NEXT
    _next

CONSTANT
    _TETrace <- _trace

ALIAS
    _expression
=============================================================================
\* Generated on Fri Oct 02 22:56:13 UTC 2026