SPECIFICATION Spec
INVARIANT SameAsSequential
CONSTANTS
  T = 2
  QuadOf <- SharedQuadrant
  R = 4
  CH = 1
  PRIVATE = TRUE
CHECK_DEADLOCK FALSE
