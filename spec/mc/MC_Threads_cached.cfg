SPECIFICATION Spec
INVARIANT NoRace
CONSTANTS
  Thread = {t1, t2, t3}
  CACHES = TRUE
  OMPLOCK = FALSE
  MaxCalls = 3
CHECK_DEADLOCK FALSE
