------------------------------ MODULE MC_Alloc ------------------------------
(***************************************************************************)
(* C14, bounded exhaustive: every interleaving of mzd_init (all size        *)
(* classes), mzd_init_window, mzd_free (any order) and m4ri_mmc_cleanup up  *)
(* to Depth calls, with small capacities so that cache hits, eviction,      *)
(* header-block growth, the block limit (spill to malloc) and unlink-on-    *)
(* empty are all reachable.  Invariants: storage of live matrices disjoint  *)
(* from each other and from cached blocks, header bookkeeping exact, the    *)
(* heap holds exactly what is reachable (no leak, no use after release),    *)
(* nothing retained once everything is freed and the cache cleaned; action  *)
(* property: freeing a window never releases matrix storage.                *)
(***************************************************************************)
EXTENDS Alloc

CONSTANTS Sizes, Depth
VARIABLES st, obs, last
vars == <<st, obs, last>>

Init == st = InitSt /\ obs = << >> /\ last = "none"

Apply(R, tag) == st' = R.st /\ obs' = R.obs /\ last' = tag

Next ==
  \/ \E h \in Handles, s \in Sizes : st.objs[h].kind = "none" /\ Apply(DoInit(st, h, s), "init")
  \/ \E h, p \in Handles : st.objs[h].kind = "none" /\ st.objs[p].kind = "owner" /\ Apply(DoWindow(st, h, p), "window")
  \/ \E h \in Handles : st.objs[h].kind = "owner" /\ Apply(DoFree(st, h), "free_owner")
  \/ \E h \in Handles : st.objs[h].kind = "window" /\ Apply(DoFree(st, h), "free_window")
  \/ Apply(DoCleanup(st), "cleanup")

Spec == Init /\ [][Next]_vars
Bound == TLCGet("level") < Depth

Inv == AllocInv(st) /\ NothingRetained(st)
\* freeing a window releases no matrix storage (neither to the heap nor by evicting into the cache)
WindowFreeOK == last = "free_window" => \A i \in 1 .. Len(obs) : obs[i][2] # "data"
\* a hit in the block cache makes no heap call for the data; a fresh block is taken otherwise
InitObsOK == last = "init" => Len(obs) <= 2
\* reachability witnesses (checked to be violated = reachable by bin/vcheck with separate configs)
NeverEvict == ~(last = "free_owner" /\ \E i \in 1 .. Len(obs) : obs[i][1] = "f" /\ obs[i][2] = "data" /\ Len(obs) >= 1 /\ st.evict # 0)
NeverSpill == ~(\E h \in Handles : st.objs[h].kind # "none" /\ st.objs[h].hb = -1)
NeverUnlink == ~(\E i \in 1 .. Len(obs) : obs[i] = <<"f", "hblk", BSIZE>>)
HandleSym == Permutations(Handles)
=============================================================================
