SPECIFICATION Spec
INVARIANT WordsOK
CONSTANT W = 2
CHECK_DEADLOCK FALSE
