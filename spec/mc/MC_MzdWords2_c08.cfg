SPECIFICATION Spec
INVARIANT WordsOK
CONSTANTS
  W = 2
  RM = 4
  RW = 4
  KINDS = {"extract", "copy_row"}
CHECK_DEADLOCK FALSE
