SPECIFICATION Spec
CONSTRAINT Bound
INVARIANT Inv
INVARIANT WindowFreeOK
INVARIANT InitObsOK
CONSTANTS
  NSLOTS = 2
  THRESH = 100
  HB = 2
  MAXB = 2
  HSIZE = 1
  BSIZE = 2
  CACHES = TRUE
  Handles = {h1, h2, h3, h4, h5}
  MaxIds = 16
  Sizes = {0, 10, 20, 100, 150}
  Depth = 9
SYMMETRY HandleSym
CHECK_DEADLOCK FALSE
