SPECIFICATION Spec
INVARIANT TilesOK
CONSTANTS
  BS = 3
  MaxDim = 45
CHECK_DEADLOCK FALSE
