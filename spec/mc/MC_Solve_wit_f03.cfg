SPECIFICATION Spec
INVARIANT SolveAlgOK
CONSTANT OLDPAD = TRUE
CHECK_DEADLOCK FALSE
