SPECIFICATION Spec
INVARIANT EchelonAlgOK
INVARIANT SplitOK
CONSTANT KM = 6
CHECK_DEADLOCK FALSE
