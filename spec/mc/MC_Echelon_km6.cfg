SPECIFICATION Spec
INVARIANT EchelonAlgOK
INVARIANT TopAlgOK
INVARIANT SplitOK
CONSTANT KM = 6
CHECK_DEADLOCK FALSE
