------------------------------ MODULE MC_GF2 ------------------------------
(***************************************************************************)
(* "Who checks the oracle": the executable operators of GF2.tla / Ops.tla   *)
(* (the ones used at real sizes, including the Java-overridden Xor, SetMin, *)
(* SetMax) are compared with declarative twins on ALL matrices of bounded   *)
(* dimensions.  One initial state per case; the invariant dispatches on the *)
(* kind of case.                                                            *)
(***************************************************************************)
EXTENDS Ops, TLC

CONSTANTS MaxM, MaxN      \* all matrices up to MaxM x MaxN (and MaxN x MaxM)

VARIABLE cs
vars == <<cs>>

AllMats(m, n) == {Mat(m, n, r) : r \in [0 .. m - 1 -> SUBSET (0 .. n - 1)]}
Dims == {<<m, n>> \in (1 .. MaxN) \X (1 .. MaxN) : (m <= MaxM /\ n <= MaxN) \/ (m <= MaxN /\ n <= MaxM)}

\* --- declarative twins ---------------------------------------------------
RowSpace(A) == {XorRows(S, A.r) : S \in SUBSET Rows(A)}
Log2(k) == CHOOSE e \in 0 .. 16 : 2 ^ e = k
RankD(A) == Log2(Cardinality(RowSpace(A)))
EntryMul(A, B) == Mat(A.m, B.n, [i \in Rows(A) |->
                     {j \in 0 .. B.n - 1 : Cardinality({k \in A.r[i] : j \in B.r[k]}) % 2 = 1}])
LeftCols(A, j) == Mat(A.m, j, [i \in Rows(A) |-> {c \in A.r[i] : c < j}])
ProfileD(A) == {j \in Cols(A) : RankD(LeftCols(A, j + 1)) > RankD(LeftCols(A, j))}
SeqToSet(s) == {s[i] : i \in 1 .. Len(s)}
Lapack(n) == {p \in [1 .. n -> 0 .. n - 1] : \A i \in 1 .. n : p[i] >= i - 1}

MatCaseOK(A) ==
  LET E == Elim(A)  R == RREF(A) IN
  /\ WellFormed(R) /\ IsRREF(R) /\ IsREF(R)
  /\ RowSpace(R) = RowSpace(A)
  /\ E.rank = RankD(A) /\ Rank(A) = RankD(A)
  /\ Len(E.piv) = E.rank /\ SeqToSet(E.piv) = ProfileD(A)
  /\ \A i \in 1 .. E.rank - 1 : E.piv[i] < E.piv[i + 1]
  /\ Eq(Transpose(Transpose(A)), A)
  /\ Rank(Transpose(A)) = RankD(A)
  /\ RowSpaceEq(A, R)
  /\ (IsRREF(A) => Eq(R, A))
  /\ Eq(Mul(Id(A.m), A), A) /\ Eq(Mul(A, Id(A.n)), A)
  /\ Eq(Add(A, A), Zero(A.m, A.n))
  /\ FirstZeroRowSem(A) = (IF IsZero(A) THEN 0 ELSE CHOOSE k \in 1 .. A.m : A.r[k - 1] # {} /\ \A j \in k .. A.m - 1 : A.r[j] = {})
  /\ Eq(Add(UpperPart(A), StrictLower(A)), A) /\ Eq(Add(LowerPart(A), StrictUpper(A)), A)
  /\ \A sr \in Rows(A), sc \in Cols(A) :
        LET zero == \A i \in sr .. A.m - 1 : \A c \in A.r[i] : c < sc IN
        /\ (zero => FindPivotOK(A, sr, sc, 0, 0, 0) /\ ~FindPivotOK(A, sr, sc, 1, sr, sc))
        /\ (~zero => ~FindPivotOK(A, sr, sc, 0, 0, 0) /\ \E r \in Rows(A), c \in Cols(A) : FindPivotOK(A, sr, sc, 1, r, c))

\* uniqueness of the RREF within a row space (smaller bound: quadratic in the number of matrices)
UniqueCaseOK(A) ==
  \A R \in AllMats(A.m, A.n) : (IsRREF(R) /\ RowSpace(R) = RowSpace(A)) => Eq(R, RREF(A))

PairCaseOK(A, B) ==
  /\ Eq(Mul(A, B), EntryMul(A, B))
  /\ Eq(Transpose(Mul(A, B)), Mul(Transpose(B), Transpose(A)))
  /\ (B.m = B.n => (IsInverse(A, B) <=> (A.m = A.n /\ Eq(EntryMul(A, B), Id(A.n)))))
  /\ (SameDims(A, B) => (CmpSem(A, B) = 0 <=> Eq(A, B)) /\ CmpSem(A, B) = -CmpSem(B, A) /\ (EqualSem(A, B) = 1 <=> A = B))

SolveCaseOK(A, B) ==     \* A m x n, B m x w
  /\ Consistent(A, B) <=> \E X \in AllMats(A.n, B.n) : Eq(Mul(A, X), B)
  /\ (A.m = A.n /\ IsUnitUpper(UnitUpper(A))) =>
        \E X \in AllMats(A.n, B.n) : TrsmOK("trsm_upper_left", A, B, X) /\
              \A Y \in AllMats(A.n, B.n) : TrsmOK("trsm_upper_left", A, B, Y) => Y = X

PermCaseOK(A, P) ==
  LET PM == PermMat(P, Len(P)) IN
  /\ Len(P) = A.m => /\ Eq(ApplyPLeftTrans(ApplyPLeft(A, P), P), A)
                     /\ Eq(ApplyPLeft(ApplyPLeftTrans(A, P), P), A)
                     /\ Eq(ApplyPLeft(A, P), Mul(PM, A))
                     /\ Eq(ApplyPLeftTrans(A, P), Mul(Transpose(PM), A))
  /\ Len(P) = A.n => /\ Eq(ApplyPRightTrans(ApplyPRight(A, P), P), A)
                     /\ Eq(ApplyPRight(ApplyPRightTrans(A, P), P), A)
                     /\ Eq(ApplyPRight(A, P), Mul(A, PM))
                     /\ Eq(ApplyPRightTrans(A, P), Mul(A, Transpose(PM)))
                     /\ Eq(ApplyPRightSeq(A, P), ApplyPRight(A, P))                 \* the swap-by-swap form used for very wide matrices
                     /\ Eq(ApplyPRightTransSeq(A, P), ApplyPRightTrans(A, P))

SetCaseOK(a, b) ==
  /\ Xor(a, b) = XorD(a, b)
  /\ (a # {} => SetMin(a) = SetMinD(a) /\ SetMax(a) = SetMaxD(a))

\* --- case enumeration: two-level fan-out so that TLC's workers share the cases -----------------
\* phase 0: the single initial state; phase 1: kind, dimensions and first index chosen;
\* phase 2: second index chosen, the invariant is evaluated there.
MatIdx(m, n, x) == Mat(m, n, [i \in 0 .. m - 1 |-> {c \in 0 .. n - 1 : (x \div (2 ^ (i * n + c))) % 2 = 1}])
SetIdx(x) == {c \in 0 .. 5 : (x \div (2 ^ c)) % 2 = 1}
NMat(m, n) == 2 ^ (m * n)

PairDims == {<<2, 3, 2>>, <<3, 2, 3>>, <<2, 2, 2>>, <<3, 3, 3>>, <<2, 3, 3>>, <<3, 2, 2>>, <<1, 4, 3>>, <<3, 4, 1>>}
SolveDims == {<<3, 3, 2>>, <<2, 3, 2>>, <<3, 2, 2>>, <<3, 3, 1>>, <<2, 4, 1>>}
PermDims == {<<3, 3>>, <<2, 4>>, <<4, 2>>}
UniqDims == {<<2, 2>>, <<2, 3>>, <<3, 2>>, <<3, 3>>}

Init == cs = [ph |-> 0]
Next ==
  \/ /\ cs.ph = 0
     /\ \/ \E d \in Dims : \E a \in 0 .. NMat(d[1], d[2]) - 1 : cs' = [ph |-> 1, t |-> "mat", d |-> d, a |-> a]
        \/ \E d \in UniqDims : \E a \in 0 .. NMat(d[1], d[2]) - 1 : cs' = [ph |-> 1, t |-> "uniq", d |-> d, a |-> a]
        \/ \E d \in PairDims : \E a \in 0 .. NMat(d[1], d[2]) - 1 : cs' = [ph |-> 1, t |-> "pair", d |-> d, a |-> a]
        \/ \E d \in SolveDims : \E a \in 0 .. NMat(d[1], d[2]) - 1 : cs' = [ph |-> 1, t |-> "solve", d |-> d, a |-> a]
        \/ \E d \in PermDims : \E a \in 0 .. NMat(d[1], d[2]) - 1 : cs' = [ph |-> 1, t |-> "perm", d |-> d, a |-> a]
        \/ \E a \in 0 .. 63 : cs' = [ph |-> 1, t |-> "set", d |-> <<0, 0>>, a |-> a]
  \/ /\ cs.ph = 1
     /\ CASE cs.t \in {"mat", "uniq"} -> cs' = [cs EXCEPT !.ph = 2] @@ [b |-> 0, P |-> <<>>]
          [] cs.t = "pair" -> \E b \in 0 .. NMat(cs.d[2], cs.d[3]) - 1 : cs' = [cs EXCEPT !.ph = 2] @@ [b |-> b, P |-> <<>>]
          [] cs.t = "solve" -> \E b \in 0 .. NMat(cs.d[1], cs.d[3]) - 1 : cs' = [cs EXCEPT !.ph = 2] @@ [b |-> b, P |-> <<>>]
          [] cs.t = "perm" -> \E P \in Lapack(cs.d[1]) \cup Lapack(cs.d[2]) : cs' = [cs EXCEPT !.ph = 2] @@ [b |-> 0, P |-> P]
          [] cs.t = "set" -> \E b \in 0 .. 63 : cs' = [cs EXCEPT !.ph = 2] @@ [b |-> b, P |-> <<>>]

CaseOK(c) ==
  CASE c.t = "mat" -> MatCaseOK(MatIdx(c.d[1], c.d[2], c.a))
    [] c.t = "uniq" -> UniqueCaseOK(MatIdx(c.d[1], c.d[2], c.a))
    [] c.t = "pair" -> PairCaseOK(MatIdx(c.d[1], c.d[2], c.a), MatIdx(c.d[2], c.d[3], c.b))
    [] c.t = "solve" -> SolveCaseOK(MatIdx(c.d[1], c.d[2], c.a), MatIdx(c.d[1], c.d[3], c.b))
    [] c.t = "perm" -> PermCaseOK(MatIdx(c.d[1], c.d[2], c.a), c.P)
    [] c.t = "set" -> SetCaseOK(SetIdx(c.a), SetIdx(c.b))

Spec == Init /\ [][Next]_vars
OracleOK == cs.ph = 2 => CaseOK(cs)
=============================================================================
