SPECIFICATION Spec
INVARIANT RussianOK
INVARIANT ELemma
CONSTANTS
  WB = 2
  K = 1
  NT = 2
  SB = 1
  SHAPES <- ShapesFull
  BIG <- BigFull
  PATS = 1000
CHECK_DEADLOCK FALSE
