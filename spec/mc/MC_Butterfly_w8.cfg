SPECIFICATION Spec
INVARIANT ButterflyOK
CONSTANTS
  W = 8
  FULL = FALSE
CHECK_DEADLOCK FALSE
