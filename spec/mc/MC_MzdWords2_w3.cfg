SPECIFICATION Spec
INVARIANT WordsOK
CONSTANTS
  W = 3
  RM = 4
  RW = 3
  KINDS = {"col_swap", "compress_l"}
CHECK_DEADLOCK FALSE
