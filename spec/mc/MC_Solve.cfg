SPECIFICATION Spec
INVARIANT SolveAlgOK
INVARIANT FactAlgOK
INVARIANT TrtriAlgOK
CONSTANT OLDPAD = FALSE
CHECK_DEADLOCK FALSE
