SPECIFICATION Spec
INVARIANT OracleOK
CONSTANTS
  MaxM = 3
  MaxN = 4
CHECK_DEADLOCK FALSE
