---------------------------- MODULE MC_Strassen ----------------------------
(***************************************************************************)
(* Bounded check of alg/Strassen.tla at word size 2:                        *)
(*  (1) SplitOK for ALL shapes m,k,n in 1..MaxD and all cutoffs (multiples  *)
(*      of the word size, as normalised by the public wrappers): no empty   *)
(*      quadrant, no window outside its operand.  With the pinned tree's    *)
(*      base-case test (CloserOld) this invariant is violated - that is     *)
(*      finding F01 reproduced at the design level (witness configuration). *)
(*  (2) the four Bodrato sequences + remainder strips compute A*B / C + A*B *)
(*      for all shapes in 1..MaxD and contents from a bilinear basis sample *)
(*      and patterns.                                                       *)
(***************************************************************************)
EXTENDS Strassen, TLC

CONSTANTS MaxD, Cutoffs, USEOLD
VARIABLE cs
vars == <<cs>>

Contents(m, n) == {Pat(m, n, 1), Pat(m, n, 2), Mat(m, n, [i \in 0 .. m - 1 |-> 0 .. n - 1]),
                   Mat(m, n, [i \in 0 .. m - 1 |-> IF i % 3 = 0 THEN {(i * 5) % n} ELSE {}])}

Init == cs = [ph |-> 0]
Next ==
  \/ cs.ph = 0 /\ \E m \in 1 .. MaxD, k \in 1 .. MaxD, n \in 1 .. MaxD, c \in Cutoffs : cs' = [ph |-> 1, m |-> m, k |-> k, n |-> n, c |-> c]
  \/ cs.ph = 1 /\ \E ia \in 1 .. 4, ib \in 1 .. 4 : cs' = [cs EXCEPT !.ph = 2] @@ [ia |-> ia, ib |-> ib]
Spec == Init /\ [][Next]_vars

Nth(S, i) == CHOOSE f \in [1 .. Cardinality(S) -> S] : \A a, b \in 1 .. Cardinality(S) : a # b => f[a] # f[b]
Pick(m, n, i) ==
  CASE i = 1 -> Pat(m, n, 1) [] i = 2 -> Pat(m, n, 2) [] i = 3 -> Mat(m, n, [r \in 0 .. m - 1 |-> 0 .. n - 1])
    [] OTHER -> Mat(m, n, [r \in 0 .. m - 1 |-> IF r % 3 = 0 THEN {(r * 5) % n} ELSE {}])

SplitInv == cs.ph = 1 => IF USEOLD THEN SplitOK(cs.m, cs.k, cs.n, cs.c, CloserOld) ELSE SplitOK(cs.m, cs.k, cs.n, cs.c, Closer)
ScheduleInv ==
  cs.ph = 2 =>
    LET A == Pick(cs.m, cs.k, cs.ia)  B == Pick(cs.k, cs.n, cs.ib)  C == Pick(cs.m, cs.n, ((cs.ia + cs.ib) % 4) + 1) IN
    /\ Eq(MulEven(Zero(cs.m, cs.n), A, B, cs.c), Mul(A, B))
    /\ Eq(AddMulEven(C, A, B, cs.c), Add(C, Mul(A, B)))
    /\ (cs.m = cs.k /\ cs.k = cs.n => /\ Eq(SqrEven(Zero(cs.m, cs.m), A, cs.c), Mul(A, A))
                                     /\ Eq(AddSqrEven(C, A, cs.c), Add(C, Mul(A, A))))
=============================================================================
