---------------------------- MODULE MC_MzdWords2 ----------------------------
(***************************************************************************)
(* Word-level checks that need a larger region than MC_MzdWords: a region   *)
(* of RM rows x RW words; windows at every word offset and of every width   *)
(* (so that the last word holds foreign bits of the parent).                *)
(*  - mzd_col_swap_in_rows (C13): all column pairs, all row ranges;         *)
(*  - _mzd_compress_l (C03, C09; finding F17): all (r1, n1, r2) with n1 a   *)
(*    multiple of W, r1 <= n1 < ncols, r2 <= ncols - n1, r1 + r2 <= nrows:  *)
(*    the value of the window afterwards is PLERec!CompressL of its value   *)
(*    before - for ARBITRARY contents, so in particular whatever the parent *)
(*    holds right of the window never enters the result -, and no bit       *)
(*    outside the window changes.                                           *)
(* Both routines only move, mask and XOR bits under content-independent     *)
(* control, so every output bit is a GF(2)-linear function of the memory    *)
(* (as is the specification): agreement on the zero memory, the all-ones    *)
(* memory and every single-bit memory implies agreement on all memories.    *)
(***************************************************************************)
EXTENDS Ops, MzdWords, TLC
CONSTANTS RM, RW, KINDS
VARIABLE cs
vars == <<cs>>

WB == W
CUTW == 0
BLOCKT == W
PIVRULE == "first"
BaseCase(A) == A
PR == INSTANCE PLERec

REG == [base |-> 0, nrows |-> RM, ncols |-> RW * W, rowstride |-> RW]
\* the region and - only for the kinds that write into a separate destination - a second one behind it
Addrs == IF KINDS \cap {"extract", "copy_row"} # {} THEN 0 .. 2 * RM * RW - 1 ELSE 0 .. RM * RW - 1
Win(r0, w0, m, n) == [base |-> r0 * RW + w0, nrows |-> m, ncols |-> n, rowstride |-> RW]
Wins == {Win(r0, w0, m, n) : r0 \in 0 .. 1, w0 \in 0 .. RW - 1, m \in 1 .. RM, n \in 1 .. RW * W}
Valid(S) == LET r0 == S.base \div RW  w0 == S.base % RW IN r0 + S.nrows <= RM /\ w0 * W + S.ncols <= RW * W
MatOf(mem, M) == Mat(M.nrows, M.ncols, ValueOf(mem, M))
FrameOK2(m0, m1, D) == \A x \in Addrs : \A b \in Bits : (<<x, b>> \notin ViewBits(D)) => ((b \in m0[x]) <=> (b \in m1[x]))
FrameOK(m0, m1, D) == \A x \in Addrs : \A b \in Bits : (<<x, b>> \notin ViewBits(D)) => ((b \in m0[x]) <=> (b \in m1[x]))

CheckColSwap(S, m0) ==
  \A a \in 0 .. S.ncols - 1, b \in 0 .. S.ncols - 1, r0 \in 0 .. S.nrows, r1 \in 0 .. S.nrows :
     r0 <= r1 =>
       LET m1 == ColSwapInRows(m0, S, a, b, r0, r1)
       IN Eq(MatOf(m1, S), ColSwapInRowsSem(MatOf(m0, S), a, b, r0, r1)) /\ FrameOK(m0, m1, S)

CheckCompressLG(S, m0, capped) ==
  \A k \in 1 .. RW, r1 \in 0 .. RW * W, r2 \in 0 .. RW * W :
     LET n1 == k * W IN
     (n1 < S.ncols /\ r1 <= n1 /\ r2 <= S.ncols - n1 /\ r1 + r2 <= S.nrows) =>
       LET m1 == WCompressLG(m0, S, r1, n1, r2, capped)
       IN Eq(MatOf(m1, S), PR!CompressL(MatOf(m0, S), r1, n1, r2)) /\ FrameOK(m0, m1, S)

\* destinations: windows of the region disjoint from S are hard to arrange in one region; the destination is a second
\* copy of the region placed behind it (addresses RM*RW ..), pre-filled by the same memory pattern shifted
DBASE == RM * RW
DWin(r0, w0, m, n) == [base |-> DBASE + r0 * RW + w0, nrows |-> m, ncols |-> n, rowstride |-> RW]
CheckExtract(S, m0) ==
  LET k == Min({S.nrows, S.ncols}) IN
  \A r0 \in 0 .. 1, w0 \in 0 .. 1 :
     (r0 + k <= RM /\ w0 * W + k <= RW * W) =>
       LET D == DWin(r0, w0, k, k)
           mu == ExtractUW(m0, D, S, MzdSubmatrix)
           ml == ExtractLW(m0, D, S, MzdSubmatrix)
       IN /\ Eq(MatOf(mu, D), ExtractUSem(MatOf(m0, S))) /\ FrameOK2(m0, mu, D)
          /\ Eq(MatOf(ml, D), ExtractLSem(MatOf(m0, S))) /\ FrameOK2(m0, ml, D)
CheckCopyRow(S, m0) ==
  \A i \in 0 .. RM - 1, j \in 0 .. S.nrows - 1, r0 \in 0 .. 1, w0 \in 0 .. 1, extra \in {0, 1, W, W + 1} :
     (w0 * W + S.ncols + extra <= RW * W /\ r0 + 2 <= RM /\ i < 2) =>
       LET D == DWin(r0, w0, 2, S.ncols + extra)
           m1 == CopyRowW(m0, D, i, S, j)
       IN Eq(MatOf(m1, D), CopyRowSem(MatOf(m0, D), i, MatOf(m0, S), j)) /\ FrameOK2(m0, m1, D)

Check(kind, S, m0) ==
  CASE kind = "col_swap" -> CheckColSwap(S, m0)
    [] kind = "compress_l" -> CheckCompressLG(S, m0, TRUE)
    [] kind = "extract" -> CheckExtract(S, m0)
    [] kind = "copy_row" -> CheckCopyRow(S, m0)
    [] kind = "compress_l_f17" -> CheckCompressLG(S, m0, FALSE)     \* witness: the pinned tree's version must be rejected

BasisMems == {[x \in Addrs |-> {}], [x \in Addrs |-> Bits]} \cup {[x \in Addrs |-> IF x = y THEN {b} ELSE {}] : y \in Addrs, b \in Bits}
Init == cs = [ph |-> 0]
Next ==
  \/ cs.ph = 0 /\ \E k \in KINDS, S \in {x \in Wins : Valid(x)} : cs' = [ph |-> 1, k |-> k, S |-> S]
  \/ cs.ph = 1 /\ \E m \in BasisMems : cs' = [ph |-> 2, k |-> cs.k, S |-> cs.S, mem |-> m]
Spec == Init /\ [][Next]_vars
WordsOK == cs.ph = 2 => Check(cs.k, cs.S, cs.mem)
=============================================================================
