SPECIFICATION Spec
INVARIANT RussianOK
INVARIANT ELemma
CONSTANTS
  WB = 6
  K = 2
  NT = 3
  SB = 1
  SHAPES <- NoShapes
  BIG <- BigFull
  PATS = 300
CHECK_DEADLOCK FALSE
