----------------------------- MODULE MC_Butterfly -----------------------------
EXTENDS Butterfly
CONSTANT FULL
VARIABLE cs
Basis == {[r \in Bits |-> {}], [r \in Bits |-> Bits]} \cup {[r \in Bits |-> IF r = i THEN {b} ELSE {}] : i \in Bits, b \in Bits}
All == [Bits -> SUBSET Bits]
Init == cs = [ph |-> 0]
Next == cs.ph = 0 /\ \E s \in (IF FULL THEN All ELSE Basis) : cs' = [ph |-> 1, src |-> s]
Spec == Init /\ [][Next]_cs
ButterflyOK == cs.ph = 1 => IsTranspose(cs.src, Transpose64(cs.src))
=============================================================================
