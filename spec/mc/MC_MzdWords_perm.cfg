SPECIFICATION Spec
INVARIANT WordsOK
CONSTANTS
  W = 2
  FULL = FALSE
  KINDS = {"perm"}
CHECK_DEADLOCK FALSE
