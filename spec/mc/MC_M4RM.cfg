SPECIFICATION Spec
INVARIANT TableAlgOK
CONSTANTS
  MaxL = 10
  NCols = 2
CHECK_DEADLOCK FALSE
