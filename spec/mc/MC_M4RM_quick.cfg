SPECIFICATION Spec
INVARIANT TableAlgOK
CONSTANTS
  MaxL = 8
  NCols = 2
CHECK_DEADLOCK FALSE
