------------------------- MODULE MC_TransposeTiling -------------------------
EXTENDS TransposeTiling
CONSTANT MaxDim
VARIABLE cs
Init == cs = [ph |-> 0]
Next == cs.ph = 0 /\ \E m \in 1 .. MaxDim, n \in 1 .. MaxDim : cs' = [ph |-> 1, m |-> m, n |-> n]
Spec == Init /\ [][Next]_cs
TilesOK == cs.ph = 1 => TilingOK(cs.m, cs.n)
=============================================================================
