SPECIFICATION Spec
INVARIANT InvOK
CONSTANTS
  KM = 1
  NS = {1, 2, 3}
  WBS = {2, 4}
CHECK_DEADLOCK FALSE
