SPECIFICATION Spec
INVARIANT FullOK
INVARIANT NotFullOK
CONSTANTS
  WB = 2
  CUTW = 2
  BLOCKT = 2
  PIVRULE = "first"
  BaseCase <- NaiveBase
  SHAPES <- ShapesFull
  BIG <- BigFull
  PATS = 1500
CHECK_DEADLOCK FALSE
