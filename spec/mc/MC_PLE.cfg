SPECIFICATION Spec
INVARIANT LoopInv
INVARIANT FinalOK
CONSTANTS
  MaxM = 3
  MaxN = 4
CHECK_DEADLOCK FALSE
