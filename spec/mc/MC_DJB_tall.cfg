SPECIFICATION Spec
INVARIANT DjbOK
INVARIANT Exhausted
CONSTANTS
  MaxM = 4
  MaxN = 3
CHECK_DEADLOCK FALSE
