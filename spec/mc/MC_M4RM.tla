------------------------------ MODULE MC_M4RM ------------------------------
(***************************************************************************)
(* The table algorithm equals the product for every inner dimension 1..MaxL,*)
(* every k in 1..3, every number of tables 1..3, clear and accumulate: all  *)
(* rows A (the algorithm treats rows of A independently) and, by linearity  *)
(* in B, every single-entry B plus a dense one.                             *)
(***************************************************************************)
EXTENDS M4RM, TLC
CONSTANTS MaxL, NCols
VARIABLE cs
vars == <<cs>>
Init == cs = [ph |-> 0]
Next ==
  \/ cs.ph = 0 /\ \E l \in 1 .. MaxL, k \in 1 .. 3, nt \in 1 .. 3 : cs' = [ph |-> 1, l |-> l, k |-> k, nt |-> nt]
  \/ cs.ph = 1 /\ \E a \in 0 .. 2 ^ cs.l - 1, bi \in 0 .. cs.l * NCols : cs' = [cs EXCEPT !.ph = 2] @@ [a |-> a, bi |-> bi]
Spec == Init /\ [][Next]_vars
RowA(l, a) == Mat(1, l, [i \in {0} |-> {c \in 0 .. l - 1 : (a \div (2 ^ c)) % 2 = 1}])
\* bi = 0: dense pattern; bi = 1 + r*NCols + c: single entry (r, c)
MatB(l, bi) == IF bi = 0 THEN Pat(l, NCols, 3)
               ELSE Mat(l, NCols, [r \in 0 .. l - 1 |-> IF r = (bi - 1) \div NCols THEN {(bi - 1) % NCols} ELSE {}])
TableAlgOK ==
  cs.ph = 2 =>
    LET A == RowA(cs.l, cs.a)  B == MatB(cs.l, cs.bi)  C0 == Pat(1, NCols, 5) IN
    /\ Eq(M4RMProduct(C0, A, B, cs.k, cs.nt, TRUE), Mul(A, B))
    /\ Eq(M4RMProduct(C0, A, B, cs.k, cs.nt, FALSE), Add(C0, Mul(A, B)))
=============================================================================
