SPECIFICATION Spec
INVARIANT DjbOK
INVARIANT Exhausted
CONSTANTS
  MaxM = 3
  MaxN = 3
CHECK_DEADLOCK FALSE
