---- MODULE MC_Threads_TTrace_1790982067 ----
EXTENDS Sequences, TLCExt, Toolbox, MC_Threads_TEConstants, MC_Threads, Naturals, TLC

_expression ==
    LET MC_Threads_TEExpression == INSTANCE MC_Threads_TEExpression
    IN MC_Threads_TEExpression!expression
----

_trace ==
    LET MC_Threads_TETrace == INSTANCE MC_Threads_TETrace
    IN MC_Threads_TETrace!trace
----

_inv ==
    ~(
        TLCGet("level") = Len(_TETrace)
        /\
        acc = ((t1 :> {<<"block_cache", "w">>, <<"header_cache", "w">>, <<"codebook", "r">>} @@ t2 :> {<<"block_cache", "w">>, <<"header_cache", "w">>} @@ t3 :> {}))
        /\
        pc = ((t1 :> "in" @@ t2 :> "in" @@ t3 :> "idle"))
        /\
        lock = ("none")
        /\
        done = ((t1 :> 0 @@ t2 :> 0 @@ t3 :> 0))
    )
----

_init ==
    /\ done = _TETrace[1].done
    /\ lock = _TETrace[1].lock
    /\ acc = _TETrace[1].acc
    /\ pc = _TETrace[1].pc
----

_next ==
    /\ \E i,j \in DOMAIN _TETrace:
        /\ \/ /\ j = i + 1
              /\ i = TLCGet("level")
        /\ done  = _TETrace[i].done
        /\ done' = _TETrace[j].done
        /\ lock  = _TETrace[i].lock
        /\ lock' = _TETrace[j].lock
        /\ acc  = _TETrace[i].acc
        /\ acc' = _TETrace[j].acc
        /\ pc  = _TETrace[i].pc
        /\ pc' = _TETrace[j].pc

\* Uncomment the ASSUME below to write the states of the error trace
\* to the given file in Json format. Note that you can pass any tuple
\* to `JsonSerialize`. For example, a sub-sequence of _TETrace.
    \* ASSUME
    \*     LET J == INSTANCE Json
    \*         IN J!JsonSerialize("MC_Threads_TTrace_1790982067.json", _TETrace)

=============================================================================

 Note that you can extract this module `MC_Threads_TEExpression`
  to a dedicated file to reuse `expression` (the module in the 
  dedicated `MC_Threads_TEExpression.tla` file takes precedence 
  over the module `MC_Threads_TEExpression` below).

---- MODULE MC_Threads_TEExpression ----
EXTENDS Sequences, TLCExt, Toolbox, MC_Threads_TEConstants, MC_Threads, Naturals, TLC

expression == 
    [
        \* To hide variables of the `MC_Threads` spec from the error trace,
        \* remove the variables below.  The trace will be written in the order
        \* of the fields of this record.
        done |-> done
        ,lock |-> lock
        ,acc |-> acc
        ,pc |-> pc
        
        \* Put additional constant-, state-, and action-level expressions here:
        \* ,_stateNumber |-> _TEPosition
        \* ,_doneUnchanged |-> done = done'
        
        \* Format the `done` variable as Json value.
        \* ,_doneJson |->
        \*     LET J == INSTANCE Json
        \*     IN J!ToJson(done)
        
        \* Lastly, you may build expressions over arbitrary sets of states by
        \* leveraging the _TETrace operator.  For example, this is how to
        \* count the number of times a spec variable changed up to the current
        \* state in the trace.
        \* ,_doneModCount |->
        \*     LET F[s \in DOMAIN _TETrace] ==
        \*         IF s = 1 THEN 0
        \*         ELSE IF _TETrace[s].done # _TETrace[s-1].done
        \*             THEN 1 + F[s-1] ELSE F[s-1]
        \*     IN F[_TEPosition - 1]
    ]

=============================================================================



Parsing and semantic processing can take forever if the trace below is long.
 In this case, it is advised to uncomment the module below to deserialize the
 trace from a generated binary file.

\*
\*---- MODULE MC_Threads_TETrace ----
\*EXTENDS IOUtils, MC_Threads_TEConstants, MC_Threads, TLC
\*
\*trace == IODeserialize("MC_Threads_TTrace_1790982067.bin", TRUE)
\*
\*=============================================================================
\*

---- MODULE MC_Threads_TETrace ----
EXTENDS MC_Threads_TEConstants, MC_Threads, TLC

trace == 
    <<
    ([acc |-> (t1 :> {} @@ t2 :> {} @@ t3 :> {}),pc |-> (t1 :> "idle" @@ t2 :> "idle" @@ t3 :> "idle"),lock |-> "none",done |-> (t1 :> 0 @@ t2 :> 0 @@ t3 :> 0)]),
    ([acc |-> (t1 :> {<<"block_cache", "w">>, <<"header_cache", "w">>, <<"codebook", "r">>} @@ t2 :> {} @@ t3 :> {}),pc |-> (t1 :> "in" @@ t2 :> "idle" @@ t3 :> "idle"),lock |-> "none",done |-> (t1 :> 0 @@ t2 :> 0 @@ t3 :> 0)]),
    ([acc |-> (t1 :> {<<"block_cache", "w">>, <<"header_cache", "w">>, <<"codebook", "r">>} @@ t2 :> {<<"block_cache", "w">>, <<"header_cache", "w">>} @@ t3 :> {}),pc |-> (t1 :> "in" @@ t2 :> "in" @@ t3 :> "idle"),lock |-> "none",done |-> (t1 :> 0 @@ t2 :> 0 @@ t3 :> 0)])
    >>
----


=============================================================================

---- MODULE MC_Threads_TEConstants ----
EXTENDS MC_Threads

CONSTANTS t1, t2, t3

=============================================================================

---- CONFIG MC_Threads_TTrace_1790982067 ----
CONSTANTS
    Thread = { t1 , t2 , t3 }
    CACHES = TRUE
    OMPLOCK = FALSE
    MaxCalls = 3
    t2 = t2
    t1 = t1
    t3 = t3

INVARIANT
    _inv

CHECK_DEADLOCK
    \* CHECK_DEADLOCK off because of PROPERTY or INVARIANT above.
    FALSE

INIT
    _init

NEXT
    _next

CONSTANT
    _TETrace <- _trace

ALIAS
    _expression
=============================================================================
\* Generated on Fri Oct 02 23:01:08 UTC 2026