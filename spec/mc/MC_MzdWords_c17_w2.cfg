SPECIFICATION Spec
INVARIANT WordsOK
CONSTANTS
  W = 2
  FULL = FALSE
  KINDS = {"observers"}
CHECK_DEADLOCK FALSE
