--------------------------- MODULE MC_PLERussian ---------------------------
(***************************************************************************)
(* For ALL matrices of the shapes SHAPES and PATS pattern matrices of the   *)
(* shapes BIG: the model of _mzd_ple_russian (alg/PLERussian.tla) breaks no *)
(* implicit precondition (ok) and its outcome satisfies Ops!PLEOK, the      *)
(* predicate that judges the real code.                                     *)
(***************************************************************************)
EXTENDS PLERussian, TLC
CONSTANTS SHAPES, BIG, PATS
ShapesQuick == {<<2, 2>>, <<3, 3>>, <<2, 5>>, <<3, 5>>, <<5, 3>>, <<4, 4>>}
ShapesFull == ShapesQuick \cup {<<3, 6>>, <<6, 3>>, <<4, 5>>}
BigQuick == {<<6, 7>>, <<7, 9>>}
BigFull == {<<6, 7>>, <<7, 9>>, <<9, 7>>, <<8, 13>>, <<12, 10>>}
NoShapes == {}
VARIABLE cs
vars == <<cs>>
Init == cs = [ph |-> 0]
Next ==
  \/ cs.ph = 0 /\ \E s \in SHAPES : cs' = [ph |-> 1, m |-> s[1], n |-> s[2], lo |-> 0, hi |-> 2 ^ (s[1] * s[2]) - 1, pat |-> FALSE]
  \/ cs.ph = 0 /\ \E s \in BIG : cs' = [ph |-> 1, m |-> s[1], n |-> s[2], lo |-> 0, hi |-> PATS - 1, pat |-> TRUE]
  \/ cs.ph = 1 /\ \E x \in cs.lo .. cs.hi : cs' = [cs EXCEPT !.ph = 2] @@ [x |-> x]
Spec == Init /\ [][Next]_vars
MatIdx(m, n, x) == Mat(m, n, [i \in 0 .. m - 1 |-> {c \in 0 .. n - 1 : (x \div (2 ^ (i * n + c))) % 2 = 1}])
PatMat(m, n, x) ==
  LET B == Pat(m, n, x + 3)
      z == IF x % 3 = 0 THEN {c \in 0 .. n - 1 : (c + x) % 4 < 2} ELSE {}
  IN Mat(m, n, [i \in 0 .. m - 1 |-> (IF x % 5 = 0 /\ i > 0 /\ i % 2 = 1 THEN B.r[i - 1] ELSE B.r[i]) \ z])
Input == IF cs.pat THEN PatMat(cs.m, cs.n, cs.x) ELSE MatIdx(cs.m, cs.n, cs.x)
RussianOK == cs.ph = 2 => LET A == Input  R == PleRussian(A) IN R.ok /\ PLEOK(A, R.A, R.P, R.Q, R.r, 1)
\* the two definitions of the E look-up agree: first block of every input with full rank, every row, every table
ELemma == cs.ph = 2 => LET A == Input  kk == Min({NT * K, A.n})  nt == NTab(kk, K)
                           s == Submatrix(A.r, IdSeq(A.m), IdSeq(A.n), A.m, 0, 0, kk, A.n) IN
            s.rank = kk =>
              \A i \in Rows(A), t \in 0 .. nt - 1 :
                 LET S == TabPivots(s.piv, s.rank, kk, nt, t)  lo == TabLow(kk, nt, t)  hi == lo + TabWidth(kk, nt, t)  v == InRange(s.R[i], lo, hi)
                 IN EPatternDecl(v, s.R, 0, 0, s.piv, S, lo, hi) = EPatternSeq(v, s.R, 0, 0, s.piv, S, lo, hi)
\* witnesses (expected to be violated): the window is narrower than the matrix and rows below done_row exist
WitNoWindow == cs.ph = 2 => LET A == Input IN ~(WidthOf(A.n) > Min({Max({(NT * K) \div WB + 1, SB}), WidthOf(A.n)}) /\ PleRussian(A).r >= 2)
\* the first block has full rank and rows below done_row remain (the E tables / process_rows path)
WitNoA2 == cs.ph = 2 => LET A == Input  kk == Min({NT * K, A.n})
                            s == Submatrix(A.r, IdSeq(A.m), IdSeq(A.n), A.m, 0, 0, kk, A.n) IN ~(s.rank = kk /\ s.done < A.m - 1 /\ kk >= 2)
\* a block without any pivot followed by a pivot found by mzd_find_pivot
WitNoEmptyBlock == cs.ph = 2 => LET A == Input  kk == Min({NT * K, A.n}) IN
                            ~(A.n > kk /\ \A i \in Rows(A) : InRange(A.r[i], 0, kk) = {} /\ PleRussian(A).r > 0)
=============================================================================
