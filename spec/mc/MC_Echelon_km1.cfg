SPECIFICATION Spec
INVARIANT EchelonAlgOK
INVARIANT TopAlgOK
INVARIANT SplitOK
CONSTANT KM = 1
CHECK_DEADLOCK FALSE
