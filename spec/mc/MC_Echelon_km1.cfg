SPECIFICATION Spec
INVARIANT EchelonAlgOK
INVARIANT SplitOK
CONSTANT KM = 1
CHECK_DEADLOCK FALSE
