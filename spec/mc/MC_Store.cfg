SPECIFICATION Spec
INVARIANT TypeOK
PROPERTY FrameProp
PROPERTY FreshProp
CONSTANTS
  Handles = {1, 2, 3}
  RowDims = {1, 2}
  ColDims = {1, 65}
  Seeds = {0, 1}
  ABSTRACT = FALSE
  Depth = 4
CHECK_DEADLOCK FALSE
