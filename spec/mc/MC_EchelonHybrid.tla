-------------------------- MODULE MC_EchelonHybrid --------------------------
(***************************************************************************)
(* For ALL matrices of the shapes in SHAPES, both values of `full`, every   *)
(* column as the (only) place where the density check says "dense", and no  *)
(* such place: the density-switching elimination returns the rank and an    *)
(* echelon form accepted by Ops!EchelonOK.  Word size 2, KM tables of k = 1 *)
(* columns, a density check every GAP+1 columns: hand-overs in the middle   *)
(* of a word, with and without pivots above, are reachable (witnesses).     *)
(***************************************************************************)
EXTENDS EchelonHybrid, TLC
CONSTANTS SHAPES
ShapesQuick == {<<2, 2>>, <<2, 3>>, <<3, 3>>, <<2, 4>>, <<3, 4>>, <<4, 3>>, <<2, 5>>}
ShapesFull == ShapesQuick \cup {<<4, 4>>, <<3, 5>>}
NaiveBase(A) == Base(A)
McIsDense(R, m, n, r, c, D) == c \in D
McTopK(r, n) == 1
VARIABLE cs
vars == <<cs>>
Init == cs = [ph |-> 0]
Next ==
  \/ cs.ph = 0 /\ \E s \in SHAPES, full \in BOOLEAN, d \in -1 .. 4 : d < s[2] /\ cs' = [ph |-> 1, m |-> s[1], n |-> s[2], full |-> full, d |-> d]
  \/ cs.ph = 1 /\ \E x \in 0 .. 2 ^ (cs.m * cs.n) - 1 : cs' = [cs EXCEPT !.ph = 2] @@ [x |-> x]
Spec == Init /\ [][Next]_vars
MatIdx(m, n, x) == Mat(m, n, [i \in 0 .. m - 1 |-> {c \in 0 .. n - 1 : (x \div (2 ^ (i * n + c))) % 2 = 1}])
Input == MatIdx(cs.m, cs.n, cs.x)
Run == EchelonHybrid(Input, cs.full, 1, IF cs.d < 0 THEN {} ELSE {cs.d})
HybridOK == cs.ph = 2 => LET A == Input  R == Run IN EchelonOK(A, R.A, R.rank, IF cs.full THEN 1 ELSE 0)
\* ---- witnesses (each EXPECTED to be violated) ----
WitNoMidWordHandover == cs.ph = 2 => ~(Run.handover > 0 /\ Run.handover % WB # 0)
WitNoHandoverWithPivotsAbove == cs.ph = 2 => ~(cs.full /\ Run.handover > 0 /\ Run.rank > Rank(Sub(Input, 0, 0, cs.m, Run.handover)) /\ Rank(Sub(Input, 0, 0, cs.m, Run.handover)) > 0)
=============================================================================
