SPECIFICATION Spec
INVARIANT NoRace
CONSTANTS
  Thread = {t1, t2, t3}
  CACHES = FALSE
  OMPLOCK = FALSE
  MaxCalls = 3
CHECK_DEADLOCK FALSE
