SPECIFICATION Spec
INVARIANT SameAsSequential
CONSTANTS
  T = 1
  QuadOf <- Identity
  R = 4
  CH = 1
  PRIVATE = TRUE
CHECK_DEADLOCK FALSE
