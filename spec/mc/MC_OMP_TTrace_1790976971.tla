---- MODULE MC_OMP_TTrace_1790976971 ----
EXTENDS Sequences, TLCExt, Toolbox, MC_OMP, Naturals, TLC

_expression ==
    LET MC_OMP_TEExpression == INSTANCE MC_OMP_TEExpression
    IN MC_OMP_TEExpression!expression
----

_trace ==
    LET MC_OMP_TETrace == INSTANCE MC_OMP_TETrace
    IN MC_OMP_TETrace!trace
----

_inv ==
    ~(
        TLCGet("level") = Len(_TETrace)
        /\
        C = (<<{<<1, 1>>, <<1, 2>>}, {<<2, 1>>, <<2, 2>>}, {<<3, 1>>, <<3, 2>>}, {<<4, 1>>, <<4, 2>>}>>)
        /\
        rpc = (<<[i |-> 4, st |-> 0], [i |-> 4, st |-> 0]>>)
        /\
        sown = (<<1, 2, 1, 2>>)
        /\
        spc = (<<5, 5, 5, 5>>)
        /\
        sloc = (<<{<<1, 1>>}, {<<2, 1>>}, {<<3, 1>>}, {<<4, 1>>}>>)
        /\
        tmpS = (4)
        /\
        rows = ((0 :> 1 @@ 1 :> 1 @@ 2 :> 3 @@ 3 :> 4))
        /\
        tmpP = (<<0, 0>>)
    )
----

_init ==
    /\ tmpS = _TETrace[1].tmpS
    /\ rpc = _TETrace[1].rpc
    /\ spc = _TETrace[1].spc
    /\ C = _TETrace[1].C
    /\ sown = _TETrace[1].sown
    /\ rows = _TETrace[1].rows
    /\ sloc = _TETrace[1].sloc
    /\ tmpP = _TETrace[1].tmpP
----

_next ==
    /\ \E i,j \in DOMAIN _TETrace:
        /\ \/ /\ j = i + 1
              /\ i = TLCGet("level")
        /\ tmpS  = _TETrace[i].tmpS
        /\ tmpS' = _TETrace[j].tmpS
        /\ rpc  = _TETrace[i].rpc
        /\ rpc' = _TETrace[j].rpc
        /\ spc  = _TETrace[i].spc
        /\ spc' = _TETrace[j].spc
        /\ C  = _TETrace[i].C
        /\ C' = _TETrace[j].C
        /\ sown  = _TETrace[i].sown
        /\ sown' = _TETrace[j].sown
        /\ rows  = _TETrace[i].rows
        /\ rows' = _TETrace[j].rows
        /\ sloc  = _TETrace[i].sloc
        /\ sloc' = _TETrace[j].sloc
        /\ tmpP  = _TETrace[i].tmpP
        /\ tmpP' = _TETrace[j].tmpP

\* Uncomment the ASSUME below to write the states of the error trace
\* to the given file in Json format. Note that you can pass any tuple
\* to `JsonSerialize`. For example, a sub-sequence of _TETrace.
    \* ASSUME
    \*     LET J == INSTANCE Json
    \*         IN J!JsonSerialize("MC_OMP_TTrace_1790976971.json", _TETrace)

=============================================================================

 Note that you can extract this module `MC_OMP_TEExpression`
  to a dedicated file to reuse `expression` (the module in the 
  dedicated `MC_OMP_TEExpression.tla` file takes precedence 
  over the module `MC_OMP_TEExpression` below).

---- MODULE MC_OMP_TEExpression ----
EXTENDS Sequences, TLCExt, Toolbox, MC_OMP, Naturals, TLC

expression == 
    [
        \* To hide variables of the `MC_OMP` spec from the error trace,
        \* remove the variables below.  The trace will be written in the order
        \* of the fields of this record.
        tmpS |-> tmpS
        ,rpc |-> rpc
        ,spc |-> spc
        ,C |-> C
        ,sown |-> sown
        ,rows |-> rows
        ,sloc |-> sloc
        ,tmpP |-> tmpP
        
        \* Put additional constant-, state-, and action-level expressions here:
        \* ,_stateNumber |-> _TEPosition
        \* ,_tmpSUnchanged |-> tmpS = tmpS'
        
        \* Format the `tmpS` variable as Json value.
        \* ,_tmpSJson |->
        \*     LET J == INSTANCE Json
        \*     IN J!ToJson(tmpS)
        
        \* Lastly, you may build expressions over arbitrary sets of states by
        \* leveraging the _TETrace operator.  For example, this is how to
        \* count the number of times a spec variable changed up to the current
        \* state in the trace.
        \* ,_tmpSModCount |->
        \*     LET F[s \in DOMAIN _TETrace] ==
        \*         IF s = 1 THEN 0
        \*         ELSE IF _TETrace[s].tmpS # _TETrace[s-1].tmpS
        \*             THEN 1 + F[s-1] ELSE F[s-1]
        \*     IN F[_TEPosition - 1]
    ]

=============================================================================



Parsing and semantic processing can take forever if the trace below is long.
 In this case, it is advised to uncomment the module below to deserialize the
 trace from a generated binary file.

\*
\*---- MODULE MC_OMP_TETrace ----
\*EXTENDS IOUtils, MC_OMP, TLC
\*
\*trace == IODeserialize("MC_OMP_TTrace_1790976971.bin", TRUE)
\*
\*=============================================================================
\*

---- MODULE MC_OMP_TETrace ----
EXTENDS MC_OMP, TLC

trace == 
    <<
    ([C |-> <<{}, {}, {}, {}>>,rpc |-> <<[i |-> 0, st |-> 0], [i |-> 1, st |-> 0]>>,sown |-> <<0, 0, 0, 0>>,spc |-> <<0, 0, 0, 0>>,sloc |-> <<{}, {}, {}, {}>>,tmpS |-> 0,rows |-> (0 :> 0 @@ 1 :> 0 @@ 2 :> 0 @@ 3 :> 0),tmpP |-> <<0, 0>>]),
    ([C |-> <<{}, {}, {}, {}>>,rpc |-> <<[i |-> 0, st |-> 0], [i |-> 1, st |-> 0]>>,sown |-> <<1, 0, 0, 0>>,spc |-> <<1, 0, 0, 0>>,sloc |-> <<{}, {}, {}, {}>>,tmpS |-> 0,rows |-> (0 :> 0 @@ 1 :> 0 @@ 2 :> 0 @@ 3 :> 0),tmpP |-> <<0, 0>>]),
    ([C |-> <<{}, {}, {}, {}>>,rpc |-> <<[i |-> 0, st |-> 0], [i |-> 1, st |-> 0]>>,sown |-> <<1, 2, 0, 0>>,spc |-> <<1, 1, 0, 0>>,sloc |-> <<{}, {}, {}, {}>>,tmpS |-> 0,rows |-> (0 :> 0 @@ 1 :> 0 @@ 2 :> 0 @@ 3 :> 0),tmpP |-> <<0, 0>>]),
    ([C |-> <<{}, {}, {}, {}>>,rpc |-> <<[i |-> 0, st |-> 0], [i |-> 1, st |-> 0]>>,sown |-> <<1, 2, 0, 0>>,spc |-> <<1, 2, 0, 0>>,sloc |-> <<{}, {}, {}, {}>>,tmpS |-> 0,rows |-> (0 :> 0 @@ 1 :> 0 @@ 2 :> 0 @@ 3 :> 0),tmpP |-> <<0, 0>>]),
    ([C |-> <<{}, {}, {}, {}>>,rpc |-> <<[i |-> 0, st |-> 0], [i |-> 1, st |-> 0]>>,sown |-> <<1, 2, 0, 0>>,spc |-> <<2, 2, 0, 0>>,sloc |-> <<{}, {}, {}, {}>>,tmpS |-> 0,rows |-> (0 :> 0 @@ 1 :> 0 @@ 2 :> 0 @@ 3 :> 0),tmpP |-> <<0, 0>>]),
    ([C |-> <<{<<1, 1>>}, {}, {}, {}>>,rpc |-> <<[i |-> 0, st |-> 0], [i |-> 1, st |-> 0]>>,sown |-> <<1, 2, 0, 0>>,spc |-> <<3, 2, 0, 0>>,sloc |-> <<{}, {}, {}, {}>>,tmpS |-> 0,rows |-> (0 :> 0 @@ 1 :> 0 @@ 2 :> 0 @@ 3 :> 0),tmpP |-> <<0, 0>>]),
    ([C |-> <<{<<1, 1>>}, {}, {}, {}>>,rpc |-> <<[i |-> 0, st |-> 0], [i |-> 1, st |-> 0]>>,sown |-> <<1, 2, 0, 0>>,spc |-> <<4, 2, 0, 0>>,sloc |-> <<{<<1, 1>>}, {}, {}, {}>>,tmpS |-> 0,rows |-> (0 :> 0 @@ 1 :> 0 @@ 2 :> 0 @@ 3 :> 0),tmpP |-> <<0, 0>>]),
    ([C |-> <<{<<1, 1>>, <<1, 2>>}, {}, {}, {}>>,rpc |-> <<[i |-> 0, st |-> 0], [i |-> 1, st |-> 0]>>,sown |-> <<1, 2, 0, 0>>,spc |-> <<5, 2, 0, 0>>,sloc |-> <<{<<1, 1>>}, {}, {}, {}>>,tmpS |-> 0,rows |-> (0 :> 0 @@ 1 :> 0 @@ 2 :> 0 @@ 3 :> 0),tmpP |-> <<0, 0>>]),
    ([C |-> <<{<<1, 1>>, <<1, 2>>}, {}, {}, {}>>,rpc |-> <<[i |-> 0, st |-> 0], [i |-> 1, st |-> 0]>>,sown |-> <<1, 2, 1, 0>>,spc |-> <<5, 2, 1, 0>>,sloc |-> <<{<<1, 1>>}, {}, {}, {}>>,tmpS |-> 0,rows |-> (0 :> 0 @@ 1 :> 0 @@ 2 :> 0 @@ 3 :> 0),tmpP |-> <<0, 0>>]),
    ([C |-> <<{<<1, 1>>, <<1, 2>>}, {<<2, 1>>}, {}, {}>>,rpc |-> <<[i |-> 0, st |-> 0], [i |-> 1, st |-> 0]>>,sown |-> <<1, 2, 1, 0>>,spc |-> <<5, 3, 1, 0>>,sloc |-> <<{<<1, 1>>}, {}, {}, {}>>,tmpS |-> 0,rows |-> (0 :> 0 @@ 1 :> 0 @@ 2 :> 0 @@ 3 :> 0),tmpP |-> <<0, 0>>]),
    ([C |-> <<{<<1, 1>>, <<1, 2>>}, {<<2, 1>>}, {}, {}>>,rpc |-> <<[i |-> 0, st |-> 0], [i |-> 1, st |-> 0]>>,sown |-> <<1, 2, 1, 0>>,spc |-> <<5, 4, 1, 0>>,sloc |-> <<{<<1, 1>>}, {<<2, 1>>}, {}, {}>>,tmpS |-> 0,rows |-> (0 :> 0 @@ 1 :> 0 @@ 2 :> 0 @@ 3 :> 0),tmpP |-> <<0, 0>>]),
    ([C |-> <<{<<1, 1>>, <<1, 2>>}, {<<2, 1>>, <<2, 2>>}, {}, {}>>,rpc |-> <<[i |-> 0, st |-> 0], [i |-> 1, st |-> 0]>>,sown |-> <<1, 2, 1, 0>>,spc |-> <<5, 5, 1, 0>>,sloc |-> <<{<<1, 1>>}, {<<2, 1>>}, {}, {}>>,tmpS |-> 0,rows |-> (0 :> 0 @@ 1 :> 0 @@ 2 :> 0 @@ 3 :> 0),tmpP |-> <<0, 0>>]),
    ([C |-> <<{<<1, 1>>, <<1, 2>>}, {<<2, 1>>, <<2, 2>>}, {}, {}>>,rpc |-> <<[i |-> 0, st |-> 0], [i |-> 1, st |-> 0]>>,sown |-> <<1, 2, 1, 2>>,spc |-> <<5, 5, 1, 1>>,sloc |-> <<{<<1, 1>>}, {<<2, 1>>}, {}, {}>>,tmpS |-> 0,rows |-> (0 :> 0 @@ 1 :> 0 @@ 2 :> 0 @@ 3 :> 0),tmpP |-> <<0, 0>>]),
    ([C |-> <<{<<1, 1>>, <<1, 2>>}, {<<2, 1>>, <<2, 2>>}, {}, {}>>,rpc |-> <<[i |-> 0, st |-> 0], [i |-> 1, st |-> 0]>>,sown |-> <<1, 2, 1, 2>>,spc |-> <<5, 5, 2, 1>>,sloc |-> <<{<<1, 1>>}, {<<2, 1>>}, {}, {}>>,tmpS |-> 0,rows |-> (0 :> 0 @@ 1 :> 0 @@ 2 :> 0 @@ 3 :> 0),tmpP |-> <<0, 0>>]),
    ([C |-> <<{<<1, 1>>, <<1, 2>>}, {<<2, 1>>, <<2, 2>>}, {<<3, 1>>}, {}>>,rpc |-> <<[i |-> 0, st |-> 0], [i |-> 1, st |-> 0]>>,sown |-> <<1, 2, 1, 2>>,spc |-> <<5, 5, 3, 1>>,sloc |-> <<{<<1, 1>>}, {<<2, 1>>}, {}, {}>>,tmpS |-> 0,rows |-> (0 :> 0 @@ 1 :> 0 @@ 2 :> 0 @@ 3 :> 0),tmpP |-> <<0, 0>>]),
    ([C |-> <<{<<1, 1>>, <<1, 2>>}, {<<2, 1>>, <<2, 2>>}, {<<3, 1>>}, {}>>,rpc |-> <<[i |-> 0, st |-> 0], [i |-> 1, st |-> 0]>>,sown |-> <<1, 2, 1, 2>>,spc |-> <<5, 5, 3, 2>>,sloc |-> <<{<<1, 1>>}, {<<2, 1>>}, {}, {}>>,tmpS |-> 0,rows |-> (0 :> 0 @@ 1 :> 0 @@ 2 :> 0 @@ 3 :> 0),tmpP |-> <<0, 0>>]),
    ([C |-> <<{<<1, 1>>, <<1, 2>>}, {<<2, 1>>, <<2, 2>>}, {<<3, 1>>}, {}>>,rpc |-> <<[i |-> 0, st |-> 0], [i |-> 1, st |-> 0]>>,sown |-> <<1, 2, 1, 2>>,spc |-> <<5, 5, 4, 2>>,sloc |-> <<{<<1, 1>>}, {<<2, 1>>}, {<<3, 1>>}, {}>>,tmpS |-> 0,rows |-> (0 :> 0 @@ 1 :> 0 @@ 2 :> 0 @@ 3 :> 0),tmpP |-> <<0, 0>>]),
    ([C |-> <<{<<1, 1>>, <<1, 2>>}, {<<2, 1>>, <<2, 2>>}, {<<3, 1>>}, {<<4, 1>>}>>,rpc |-> <<[i |-> 0, st |-> 0], [i |-> 1, st |-> 0]>>,sown |-> <<1, 2, 1, 2>>,spc |-> <<5, 5, 4, 3>>,sloc |-> <<{<<1, 1>>}, {<<2, 1>>}, {<<3, 1>>}, {}>>,tmpS |-> 0,rows |-> (0 :> 0 @@ 1 :> 0 @@ 2 :> 0 @@ 3 :> 0),tmpP |-> <<0, 0>>]),
    ([C |-> <<{<<1, 1>>, <<1, 2>>}, {<<2, 1>>, <<2, 2>>}, {<<3, 1>>}, {<<4, 1>>}>>,rpc |-> <<[i |-> 0, st |-> 0], [i |-> 1, st |-> 0]>>,sown |-> <<1, 2, 1, 2>>,spc |-> <<5, 5, 4, 4>>,sloc |-> <<{<<1, 1>>}, {<<2, 1>>}, {<<3, 1>>}, {<<4, 1>>}>>,tmpS |-> 0,rows |-> (0 :> 0 @@ 1 :> 0 @@ 2 :> 0 @@ 3 :> 0),tmpP |-> <<0, 0>>]),
    ([C |-> <<{<<1, 1>>, <<1, 2>>}, {<<2, 1>>, <<2, 2>>}, {<<3, 1>>, <<3, 2>>}, {<<4, 1>>}>>,rpc |-> <<[i |-> 0, st |-> 0], [i |-> 1, st |-> 0]>>,sown |-> <<1, 2, 1, 2>>,spc |-> <<5, 5, 5, 4>>,sloc |-> <<{<<1, 1>>}, {<<2, 1>>}, {<<3, 1>>}, {<<4, 1>>}>>,tmpS |-> 0,rows |-> (0 :> 0 @@ 1 :> 0 @@ 2 :> 0 @@ 3 :> 0),tmpP |-> <<0, 0>>]),
    ([C |-> <<{<<1, 1>>, <<1, 2>>}, {<<2, 1>>, <<2, 2>>}, {<<3, 1>>, <<3, 2>>}, {<<4, 1>>, <<4, 2>>}>>,rpc |-> <<[i |-> 0, st |-> 0], [i |-> 1, st |-> 0]>>,sown |-> <<1, 2, 1, 2>>,spc |-> <<5, 5, 5, 5>>,sloc |-> <<{<<1, 1>>}, {<<2, 1>>}, {<<3, 1>>}, {<<4, 1>>}>>,tmpS |-> 0,rows |-> (0 :> 0 @@ 1 :> 0 @@ 2 :> 0 @@ 3 :> 0),tmpP |-> <<0, 0>>]),
    ([C |-> <<{<<1, 1>>, <<1, 2>>}, {<<2, 1>>, <<2, 2>>}, {<<3, 1>>, <<3, 2>>}, {<<4, 1>>, <<4, 2>>}>>,rpc |-> <<[i |-> 0, st |-> 0], [i |-> 1, st |-> 1]>>,sown |-> <<1, 2, 1, 2>>,spc |-> <<5, 5, 5, 5>>,sloc |-> <<{<<1, 1>>}, {<<2, 1>>}, {<<3, 1>>}, {<<4, 1>>}>>,tmpS |-> 2,rows |-> (0 :> 0 @@ 1 :> 0 @@ 2 :> 0 @@ 3 :> 0),tmpP |-> <<0, 0>>]),
    ([C |-> <<{<<1, 1>>, <<1, 2>>}, {<<2, 1>>, <<2, 2>>}, {<<3, 1>>, <<3, 2>>}, {<<4, 1>>, <<4, 2>>}>>,rpc |-> <<[i |-> 0, st |-> 1], [i |-> 1, st |-> 1]>>,sown |-> <<1, 2, 1, 2>>,spc |-> <<5, 5, 5, 5>>,sloc |-> <<{<<1, 1>>}, {<<2, 1>>}, {<<3, 1>>}, {<<4, 1>>}>>,tmpS |-> 1,rows |-> (0 :> 0 @@ 1 :> 0 @@ 2 :> 0 @@ 3 :> 0),tmpP |-> <<0, 0>>]),
    ([C |-> <<{<<1, 1>>, <<1, 2>>}, {<<2, 1>>, <<2, 2>>}, {<<3, 1>>, <<3, 2>>}, {<<4, 1>>, <<4, 2>>}>>,rpc |-> <<[i |-> 2, st |-> 0], [i |-> 1, st |-> 1]>>,sown |-> <<1, 2, 1, 2>>,spc |-> <<5, 5, 5, 5>>,sloc |-> <<{<<1, 1>>}, {<<2, 1>>}, {<<3, 1>>}, {<<4, 1>>}>>,tmpS |-> 1,rows |-> (0 :> 1 @@ 1 :> 0 @@ 2 :> 0 @@ 3 :> 0),tmpP |-> <<0, 0>>]),
    ([C |-> <<{<<1, 1>>, <<1, 2>>}, {<<2, 1>>, <<2, 2>>}, {<<3, 1>>, <<3, 2>>}, {<<4, 1>>, <<4, 2>>}>>,rpc |-> <<[i |-> 2, st |-> 0], [i |-> 3, st |-> 0]>>,sown |-> <<1, 2, 1, 2>>,spc |-> <<5, 5, 5, 5>>,sloc |-> <<{<<1, 1>>}, {<<2, 1>>}, {<<3, 1>>}, {<<4, 1>>}>>,tmpS |-> 1,rows |-> (0 :> 1 @@ 1 :> 1 @@ 2 :> 0 @@ 3 :> 0),tmpP |-> <<0, 0>>]),
    ([C |-> <<{<<1, 1>>, <<1, 2>>}, {<<2, 1>>, <<2, 2>>}, {<<3, 1>>, <<3, 2>>}, {<<4, 1>>, <<4, 2>>}>>,rpc |-> <<[i |-> 2, st |-> 1], [i |-> 3, st |-> 0]>>,sown |-> <<1, 2, 1, 2>>,spc |-> <<5, 5, 5, 5>>,sloc |-> <<{<<1, 1>>}, {<<2, 1>>}, {<<3, 1>>}, {<<4, 1>>}>>,tmpS |-> 3,rows |-> (0 :> 1 @@ 1 :> 1 @@ 2 :> 0 @@ 3 :> 0),tmpP |-> <<0, 0>>]),
    ([C |-> <<{<<1, 1>>, <<1, 2>>}, {<<2, 1>>, <<2, 2>>}, {<<3, 1>>, <<3, 2>>}, {<<4, 1>>, <<4, 2>>}>>,rpc |-> <<[i |-> 4, st |-> 0], [i |-> 3, st |-> 0]>>,sown |-> <<1, 2, 1, 2>>,spc |-> <<5, 5, 5, 5>>,sloc |-> <<{<<1, 1>>}, {<<2, 1>>}, {<<3, 1>>}, {<<4, 1>>}>>,tmpS |-> 3,rows |-> (0 :> 1 @@ 1 :> 1 @@ 2 :> 3 @@ 3 :> 0),tmpP |-> <<0, 0>>]),
    ([C |-> <<{<<1, 1>>, <<1, 2>>}, {<<2, 1>>, <<2, 2>>}, {<<3, 1>>, <<3, 2>>}, {<<4, 1>>, <<4, 2>>}>>,rpc |-> <<[i |-> 4, st |-> 0], [i |-> 3, st |-> 1]>>,sown |-> <<1, 2, 1, 2>>,spc |-> <<5, 5, 5, 5>>,sloc |-> <<{<<1, 1>>}, {<<2, 1>>}, {<<3, 1>>}, {<<4, 1>>}>>,tmpS |-> 4,rows |-> (0 :> 1 @@ 1 :> 1 @@ 2 :> 3 @@ 3 :> 0),tmpP |-> <<0, 0>>]),
    ([C |-> <<{<<1, 1>>, <<1, 2>>}, {<<2, 1>>, <<2, 2>>}, {<<3, 1>>, <<3, 2>>}, {<<4, 1>>, <<4, 2>>}>>,rpc |-> <<[i |-> 4, st |-> 0], [i |-> 4, st |-> 0]>>,sown |-> <<1, 2, 1, 2>>,spc |-> <<5, 5, 5, 5>>,sloc |-> <<{<<1, 1>>}, {<<2, 1>>}, {<<3, 1>>}, {<<4, 1>>}>>,tmpS |-> 4,rows |-> (0 :> 1 @@ 1 :> 1 @@ 2 :> 3 @@ 3 :> 4),tmpP |-> <<0, 0>>])
    >>
----


=============================================================================

---- CONFIG MC_OMP_TTrace_1790976971 ----
CONSTANTS
    T = 2
    QuadOf <- Identity
    R = 4
    CH = 1
    PRIVATE = FALSE

INVARIANT
    _inv

CHECK_DEADLOCK
    \* CHECK_DEADLOCK off because of PROPERTY or INVARIANT above.
    FALSE

INIT
    _init

NEXT
    _next

CONSTANT
    _TETrace <- _trace

ALIAS
    _expression
=============================================================================
\* Generated on Fri Oct 02 21:36:31 UTC 2026