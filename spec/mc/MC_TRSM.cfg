SPECIFICATION Spec
INVARIANT TrsmAlgOK
CONSTANTS
  WB = 2
  BLOCK = 2
  MaxN = 4
  BW = 2
CHECK_DEADLOCK FALSE
