SPECIFICATION Spec
INVARIANT WordsOK
CONSTANTS
  W = 2
  RM = 4
  RW = 4
  KINDS = {"col_swap"}
CHECK_DEADLOCK FALSE
