SPECIFICATION Spec
INVARIANT WordsOK
CONSTANTS
  W = 2
  FULL = TRUE
  KINDS = {"copy", "row_swap", "row_add_offset", "row_clear_offset", "bits", "concat", "stack", "submatrix", "set_ui", "add", "observers"}
CHECK_DEADLOCK FALSE
