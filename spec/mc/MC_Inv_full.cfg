SPECIFICATION Spec
INVARIANT InvOK
CONSTANTS
  KM = 2
  NS = {1, 2, 3, 4}
  WBS = {2, 4}
CHECK_DEADLOCK FALSE
