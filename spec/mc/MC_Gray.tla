------------------------------ MODULE MC_Gray ------------------------------
(***************************************************************************)
(* C19, complete for the finite domain: for every k = 1..KMax and every    *)
(* entry i of the code book: each k-bit value occurs exactly once,          *)
(* consecutive entries differ in exactly the bit recorded in inc, and the   *)
(* table built by successive single-row additions (mzd_make_table:          *)
(* T[i] = T[i-1] + row(inc[i-1]), L[ord[i]] = i) holds at T[L[x]] exactly   *)
(* the rows selected by the bits of x.  Rows are symbolic: row j is the     *)
(* singleton {j}, so a sum of rows is the set of their indices.             *)
(***************************************************************************)
EXTENDS Gray

CONSTANT KMax
VARIABLES k, i, cur     \* cur = T[i] as the set of row indices summed so far
vars == <<k, i, cur>>

Init == k \in 1 .. KMax /\ i = 0 /\ cur = {}
Next == /\ i < 2 ^ k - 1
        /\ i' = i + 1
        /\ k' = k
        /\ cur' = LET j == IncOf(i, k) IN IF j \in cur THEN cur \ {j} ELSE cur \cup {j}
Spec == Init /\ [][Next]_vars

\* T[i] is the sum of the rows selected by ord[i]  (and L[ord[i]] = i makes T[L[x]] the sum for x)
TableOK == cur = BitsOfInt(GrayCode(i, k), k)
StepOK == OneBitStep(k, i)
CodeOK == i = 0 => Distinct(k) /\ AllValues(k)
=============================================================================
