SPECIFICATION Spec
INVARIANT WitNoPadding
CONSTANTS
  KM = 2
  NS = {1, 2, 3}
  WBS = {2, 4}
CHECK_DEADLOCK FALSE
