----------------------------- MODULE MC_PLERec -----------------------------
(***************************************************************************)
(* For ALL matrices of the shapes in SHAPES (word size WB = 2, cutoff CUTW  *)
(* so small that the recursion is entered, two levels deep for 5 and 6      *)
(* columns) plus PATS pattern matrices of the larger shapes in BIG: the     *)
(* outcome of the block-recursive driver satisfies the predicate Ops!PLEOK  *)
(* that judges the real code - for PLE and, after the triangular column     *)
(* swaps, for PLUQ - with either pivot rule in the base case.               *)
(***************************************************************************)
EXTENDS PLERec, TLC
CONSTANTS SHAPES, BIG, PATS
ShapesQuick == {<<2, 3>>, <<3, 3>>, <<2, 4>>, <<3, 4>>, <<4, 3>>, <<2, 5>>}
ShapesFull == ShapesQuick \cup {<<4, 4>>, <<3, 5>>, <<5, 3>>}
ShapesDeep == {<<3, 6>>}
BigQuick == {<<5, 6>>, <<6, 7>>}
BigFull == {<<5, 6>>, <<6, 7>>, <<7, 6>>, <<6, 9>>, <<9, 8>>}
NoShapes == {}
NaiveBase(A) == Base(A)
VARIABLE cs
vars == <<cs>>
Init == cs = [ph |-> 0]
Next ==
  \/ cs.ph = 0 /\ \E s \in SHAPES : cs' = [ph |-> 1, m |-> s[1], n |-> s[2], lo |-> 0, hi |-> 2 ^ (s[1] * s[2]) - 1, pat |-> FALSE]
  \/ cs.ph = 0 /\ \E s \in BIG : cs' = [ph |-> 1, m |-> s[1], n |-> s[2], lo |-> 0, hi |-> PATS - 1, pat |-> TRUE]
  \/ cs.ph = 1 /\ \E x \in cs.lo .. cs.hi : cs' = [cs EXCEPT !.ph = 2] @@ [x |-> x]
Spec == Init /\ [][Next]_vars
MatIdx(m, n, x) == Mat(m, n, [i \in 0 .. m - 1 |-> {c \in 0 .. n - 1 : (x \div (2 ^ (i * n + c))) % 2 = 1}])
\* pattern matrices with a low-rank flavour: every third seed zeroes a band of columns, every fifth duplicates rows
PatMat(m, n, x) ==
  LET B == Pat(m, n, x + 3)
      z == IF x % 3 = 0 THEN {c \in 0 .. n - 1 : (c + x) % 4 < 2} ELSE {}
  IN Mat(m, n, [i \in 0 .. m - 1 |-> (IF x % 5 = 0 /\ i > 0 /\ i % 2 = 1 THEN B.r[i - 1] ELSE B.r[i]) \ z])
Input == IF cs.pat THEN PatMat(cs.m, cs.n, cs.x) ELSE MatIdx(cs.m, cs.n, cs.x)
PleOK == cs.ph = 2 => LET A == Input  R == Ple(A) IN PLEOK(A, R.A, R.P, R.Q, R.r, 1)
PluqNaiveOK == cs.ph = 2 => LET A == Input  R == PluqNaive(A) IN PLEOK(A, R.A, R.P, R.Q, R.r, 0)
PluqOK == cs.ph = 2 => LET A == Input  R == Pluq(A) IN PLEOK(A, R.A, R.P, R.Q, R.r, 0)
\* ---- witnesses (each is EXPECTED to be violated: the bounded check is not vacuous) -------------------
Recurses(A) == ~(FirstZeroRowSem(A) = 0 \/ A.n <= WB \/ WidthOf(A.n) * A.m <= CUTW)
WitNoRecursion == cs.ph = 2 => ~Recurses(Input)
\* a second-level recursion on the Schur complement with r1 > 0, r2 > 0 and rows left below (L2 is moved)
WitNoDeep == cs.ph = 2 => LET A == Input IN
               ~(Recurses(A) /\ LET n1 == SplitCol(A.n)  nr == FirstZeroRowSem(A)  R1 == Ple(Sub(A, 0, 0, nr, n1))  R == Ple(A) IN
                                R1.r > 0 /\ R1.r < n1 /\ R.r > R1.r /\ R.r < A.m /\ A.n - n1 > WB)
=============================================================================
