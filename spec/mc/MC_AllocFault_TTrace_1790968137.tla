---- MODULE MC_AllocFault_TTrace_1790968137 ----
EXTENDS Sequences, MC_AllocFault, TLCExt, Toolbox, Naturals, TLC

_expression ==
    LET MC_AllocFault_TEExpression == INSTANCE MC_AllocFault_TEExpression
    IN MC_AllocFault_TEExpression!expression
----

_trace ==
    LET MC_AllocFault_TETrace == INSTANCE MC_AllocFault_TETrace
    IN MC_AllocFault_TETrace!trace
----

_inv ==
    ~(
        TLCGet("level") = Len(_TETrace)
        /\
        pc = ("died")
        /\
        k = (1)
        /\
        failed = (1)
    )
----

_init ==
    /\ k = _TETrace[1].k
    /\ pc = _TETrace[1].pc
    /\ failed = _TETrace[1].failed
----

_next ==
    /\ \E i,j \in DOMAIN _TETrace:
        /\ \/ /\ j = i + 1
              /\ i = TLCGet("level")
        /\ k  = _TETrace[i].k
        /\ k' = _TETrace[j].k
        /\ pc  = _TETrace[i].pc
        /\ pc' = _TETrace[j].pc
        /\ failed  = _TETrace[i].failed
        /\ failed' = _TETrace[j].failed

\* Uncomment the ASSUME below to write the states of the error trace
\* to the given file in Json format. Note that you can pass any tuple
\* to `JsonSerialize`. For example, a sub-sequence of _TETrace.
    \* ASSUME
    \*     LET J == INSTANCE Json
    \*         IN J!JsonSerialize("MC_AllocFault_TTrace_1790968137.json", _TETrace)

=============================================================================

 Note that you can extract this module `MC_AllocFault_TEExpression`
  to a dedicated file to reuse `expression` (the module in the 
  dedicated `MC_AllocFault_TEExpression.tla` file takes precedence 
  over the module `MC_AllocFault_TEExpression` below).

---- MODULE MC_AllocFault_TEExpression ----
EXTENDS Sequences, MC_AllocFault, TLCExt, Toolbox, Naturals, TLC

expression == 
    [
        \* To hide variables of the `MC_AllocFault` spec from the error trace,
        \* remove the variables below.  The trace will be written in the order
        \* of the fields of this record.
        k |-> k
        ,pc |-> pc
        ,failed |-> failed
        
        \* Put additional constant-, state-, and action-level expressions here:
        \* ,_stateNumber |-> _TEPosition
        \* ,_kUnchanged |-> k = k'
        
        \* Format the `k` variable as Json value.
        \* ,_kJson |->
        \*     LET J == INSTANCE Json
        \*     IN J!ToJson(k)
        
        \* Lastly, you may build expressions over arbitrary sets of states by
        \* leveraging the _TETrace operator.  For example, this is how to
        \* count the number of times a spec variable changed up to the current
        \* state in the trace.
        \* ,_kModCount |->
        \*     LET F[s \in DOMAIN _TETrace] ==
        \*         IF s = 1 THEN 0
        \*         ELSE IF _TETrace[s].k # _TETrace[s-1].k
        \*             THEN 1 + F[s-1] ELSE F[s-1]
        \*     IN F[_TEPosition - 1]
    ]

=============================================================================



Parsing and semantic processing can take forever if the trace below is long.
 In this case, it is advised to uncomment the module below to deserialize the
 trace from a generated binary file.

\*
\*---- MODULE MC_AllocFault_TETrace ----
\*EXTENDS IOUtils, MC_AllocFault, TLC
\*
\*trace == IODeserialize("MC_AllocFault_TTrace_1790968137.bin", TRUE)
\*
\*=============================================================================
\*

---- MODULE MC_AllocFault_TETrace ----
EXTENDS MC_AllocFault, TLC

trace == 
    <<
    ([pc |-> "run",k |-> 0,failed |-> 1]),
    ([pc |-> "died",k |-> 1,failed |-> 1])
    >>
----


=============================================================================

---- CONFIG MC_AllocFault_TTrace_1790968137 ----
CONSTANTS
    N = 12

INVARIANT
    _inv

CHECK_DEADLOCK
    \* CHECK_DEADLOCK off because of PROPERTY or INVARIANT above.
    FALSE

INIT
    _init

NEXT
    _next

CONSTANT
    _TETrace <- _trace

ALIAS
    _expression
=============================================================================
\* Generated on Fri Oct 02 19:08:57 UTC 2026