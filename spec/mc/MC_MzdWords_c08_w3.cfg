SPECIFICATION Spec
INVARIANT WordsOK
CONSTANTS
  W = 3
  FULL = FALSE
  KINDS = {"copy", "concat", "stack", "submatrix", "set_ui", "add"}
CHECK_DEADLOCK FALSE
