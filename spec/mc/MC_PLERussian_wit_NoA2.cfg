SPECIFICATION Spec
INVARIANT WitNoA2
CONSTANTS
  WB = 2
  K = 1
  NT = 2
  SB = 1
  SHAPES <- ShapesQuick
  BIG <- BigQuick
  PATS = 200
CHECK_DEADLOCK FALSE
