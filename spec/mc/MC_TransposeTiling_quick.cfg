SPECIFICATION Spec
INVARIANT TilesOK
CONSTANTS
  BS = 2
  MaxDim = 28
CHECK_DEADLOCK FALSE
