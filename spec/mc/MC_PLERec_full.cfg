SPECIFICATION Spec
INVARIANT PleOK
INVARIANT PluqOK
CONSTANTS
  WB = 2
  CUTW = 2
  BLOCKT = 2
  PIVRULE = "first"
  SHAPES <- ShapesFull
  BIG <- BigFull
  PATS = 1500
CHECK_DEADLOCK FALSE
