SPECIFICATION Spec
INVARIANT WordsOK
CONSTANTS
  W = 3
  FULL = FALSE
  KINDS = {"row_swap", "row_add_offset", "row_clear_offset", "bits"}
CHECK_DEADLOCK FALSE
