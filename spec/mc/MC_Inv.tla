------------------------------- MODULE MC_Inv -------------------------------
(***************************************************************************)
(* For ALL invertible n x n matrices, n = 1..4 (word sizes 2 and 4: n = 3   *)
(* leaves padding columns between A and the identity and after it), table   *)
(* parameters k = 1, 2: mzd_inv_m4ri as modelled (padded work matrix, M4RI  *)
(* elimination with full reduction, block at column nr) and                 *)
(* mzd_invert_naive return the inverse and agree with each other.           *)
(* Witness: the padded layout is reachable (nr > n).                        *)
(***************************************************************************)
EXTENDS Ops, Inv, TLC
CONSTANTS NS, WBS
VARIABLE cs
vars == <<cs>>
Init == cs = [ph |-> 0]
Next ==
  \/ cs.ph = 0 /\ \E n \in NS, wb \in WBS, k \in 1 .. 2 : cs' = [ph |-> 1, n |-> n, wb |-> wb, k |-> k]
  \/ cs.ph = 1 /\ \E x \in 0 .. 2 ^ (cs.n * cs.n) - 1 : cs' = [cs EXCEPT !.ph = 2] @@ [x |-> x]
Spec == Init /\ [][Next]_vars
MatIdx(m, n, x) == Mat(m, n, [i \in 0 .. m - 1 |-> {c \in 0 .. n - 1 : (x \div (2 ^ (i * n + c))) % 2 = 1}])
Input == MatIdx(cs.n, cs.n, cs.x)
InvOK == cs.ph = 2 => LET A == Input IN Rank(A) = cs.n =>
            LET B == InvM4RI(A, cs.wb, cs.k)  N == InvertNaive(A) IN InverseOK(A, B) /\ Eq(B, N)
WitNoPadding == cs.ph = 2 => ~(Rank(Input) = cs.n /\ cs.n % cs.wb # 0)
=============================================================================
