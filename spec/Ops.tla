-------------------------------- MODULE Ops --------------------------------
(***************************************************************************)
(* Semantics of the public operations of the library as operators over GF2 *)
(* values: functional where the property is functional (products, RREF,    *)
(* inverse, TRSM, data movement), relational (a predicate over the outcome)*)
(* where the property is relational (echelon forms without full reduction, *)
(* PLE/PLUQ, kernel, pivot search).  Used by Store.tla (state machine),    *)
(* by the generators and by the trace validators, so what is model-checked *)
(* is what judges the implementation.                                      *)
(***************************************************************************)
EXTENDS GF2

\* ---- C01 products -------------------------------------------------------
MulSem(A, B) == Mul(A, B)
AddMulSem(C, A, B) == Add(C, Mul(A, B))
MulDimsOK(A, B) == A.n = B.m

\* ---- C08 addition and data movement ---------------------------------------
AddSem(A, B) == Add(A, B)
TransposeSem(A) == Transpose(A)
\* copy into a destination that may be larger: top-left block replaced, rest kept
CopySem(D, A) == Embed(D, 0, 0, A)
CopyRowSem(B, i, A, j) ==
  Mat(B.m, B.n, [x \in Rows(B) |-> IF x = i THEN {c \in B.r[i] : c >= A.n} \cup A.r[j] ELSE B.r[x]])
SubmatrixSem(M, lr, lc, hr, hc) == Sub(M, lr, lc, hr - lr, hc - lc)
ConcatSem(A, B) == Concat(A, B)
StackSem(A, B) == Stack(A, B)
ExtractUSem(A) == LET k == Min({A.m, A.n}) IN UpperPart(Sub(A, 0, 0, k, k))
ExtractLSem(A) == LET k == Min({A.m, A.n}) IN LowerPart(Sub(A, 0, 0, k, k))
SetUiSem(A, v) == IF v % 2 = 1 THEN Diag(A.m, A.n) ELSE Zero(A.m, A.n)

\* ---- C13 row / column operations ------------------------------------------
SetRow(A, i, row) == Mat(A.m, A.n, [x \in Rows(A) |-> IF x = i THEN row ELSE A.r[x]])
RowSwapSem(A, a, b) == RowSwap(A, a, b)
ColSwapSem(A, a, b) == ColSwap(A, a, b)
ColSwapInRowsSem(A, a, b, r0, r1) == ColSwapRows(A, a, b, r0, r1)
\* dst := dst + src restricted to columns >= off
RowAddOffsetSem(A, dst, src, off) == SetRow(A, dst, Xor(A.r[dst], {c \in A.r[src] : c >= off}))
RowAddSem(A, src, dst) == RowAddOffsetSem(A, dst, src, 0)
RowClearOffsetSem(A, row, off) == SetRow(A, row, {c \in A.r[row] : c < off})
\* bit ranges: n bits of row x starting at column y; values are sets of bit positions 0..n-1
XorBitsSem(A, x, y, n, bits) == SetRow(A, x, Xor(A.r[x], {y + b : b \in {v \in bits : v < n}}))
AndBitsSem(A, x, y, n, bits) == SetRow(A, x, {c \in A.r[x] : c < y \/ c >= y + n \/ (c - y) \in bits})
ClearBitsSem(A, x, y, n) == SetRow(A, x, {c \in A.r[x] : c < y \/ c >= y + n})
ReadBitsSem(A, x, y, n) == {c - y : c \in {v \in A.r[x] : v >= y /\ v < y + n}}
WriteBitSem(A, x, y, v) == SetRow(A, x, IF v = 1 THEN A.r[x] \cup {y} ELSE A.r[x] \ {y})
ReadBitSem(A, x, y) == IF y \in A.r[x] THEN 1 ELSE 0
\* C[cr] from word sb on := A[ar] + B[br] from word sb on (equal widths, equal start blocks)
CombineSem(C, cr, A, ar, B, br, sb, W) ==
  SetRow(C, cr, {c \in C.r[cr] : c < sb * W} \cup {c \in Xor(A.r[ar], B.r[br]) : c >= sb * W})

\* permutation application (LAPACK swap form), C13
ApplyPLeftSem(A, P) == ApplyPLeft(A, P)
ApplyPLeftTransSem(A, P) == ApplyPLeftTrans(A, P)
\* for very wide matrices: the same column swaps applied one after the other, over the non-trivial entries only
\* (MC_GF2 checks that this agrees with GF2!ApplyPRight / ApplyPRightTrans)
RECURSIVE SwapColsSeq(_, _, _, _)
SwapColsSeq(A, P, todo, desc) ==
  IF todo = {} THEN A
  ELSE LET i == IF desc THEN SetMax(todo) ELSE SetMin(todo) IN SwapColsSeq(ColSwap(A, i, P[i + 1]), P, todo \ {i}, desc)
NonTrivial(A, P) == {i \in 0 .. Min({Len(P), A.n}) - 1 : P[i + 1] # i}
ApplyPRightSeq(A, P) == SwapColsSeq(A, P, NonTrivial(A, P), TRUE)
ApplyPRightTransSeq(A, P) == SwapColsSeq(A, P, NonTrivial(A, P), FALSE)
ApplyPRightSem(A, P) == IF A.n > 2000 THEN ApplyPRightSeq(A, P) ELSE ApplyPRight(A, P)
ApplyPRightTransSem(A, P) == IF A.n > 2000 THEN ApplyPRightTransSeq(A, P) ELSE ApplyPRightTrans(A, P)
\* "triangular" transposed right application: swap i only on the rows above row i, ascending i
\* (iterating over the non-trivial entries only: the recursion depth is their number, not the length of P)
RECURSIVE TriSwaps(_, _, _)
TriSwaps(A, P, todo) ==
  IF todo = {} THEN A
  ELSE LET i == SetMin(todo) IN TriSwaps(ColSwapRows(A, i, P[i + 1], 0, Min({i, A.m})), P, todo \ {i})
ApplyPRightTransTriSem(A, P) == TriSwaps(A, P, {i \in 0 .. Len(P) - 1 : P[i + 1] # i})

\* ---- C17 observers ------------------------------------------------------------
EqualSem(A, B) == IF Eq(A, B) THEN 1 ELSE 0
\* three-way comparison: dimensions first, then rows in ascending order, each row compared as the
\* number whose bit c has weight 2^c (this is a total order, hence antisymmetric and transitive)
RowLess(a, b) == a # b /\ SetMax(Xor(a, b)) \in b
CmpSem(A, B) ==
  IF A.m < B.m THEN -1 ELSE IF B.m < A.m THEN 1
  ELSE IF A.n < B.n THEN -1 ELSE IF B.n < A.n THEN 1
  ELSE LET D == {i \in Rows(A) : A.r[i] # B.r[i]} IN
       IF D = {} THEN 0
       ELSE LET i == SetMin(D) IN IF RowLess(A.r[i], B.r[i]) THEN -1 ELSE 1
IsZeroSem(A) == IF IsZero(A) THEN 1 ELSE 0
\* pivot search (relational): failure iff the region is zero, otherwise any row holding a one in
\* the left-most non-zero column of the region
Region(A, sr, sc) == {<<i, c>> \in (sr .. A.m - 1) \X (sc .. A.n - 1) : c \in A.r[i]}
FindPivotOK(A, sr, sc, ret, r, c) ==
  LET cols == UNION {{x \in A.r[i] : x >= sc} : i \in sr .. A.m - 1} IN
  IF cols = {} THEN ret = 0
  ELSE ret = 1 /\ c = SetMin(cols) /\ r >= sr /\ r < A.m /\ c \in A.r[r]
FirstZeroRowSem(A) == LET nz == {i \in Rows(A) : A.r[i] # {}} IN IF nz = {} THEN 0 ELSE SetMax(nz) + 1
PopCount(A) == FoldSet(LAMBDA i, acc : acc + Cardinality(A.r[i]), 0, Rows(A))

\* ---- C02 echelon forms --------------------------------------------------------
\* ret is the returned rank; full = 1: exactly the RREF; otherwise any REF with the same row space
EchelonOK(A0, A1, ret, full) ==
  LET E0 == Elim(A0) IN
  /\ ret = E0.rank
  /\ SameDims(A0, A1)
  /\ IF full = 1 THEN \A i \in Rows(A0) : A1.r[i] = E0.r[i]
     ELSE /\ IsREF(A1)
          /\ LET E1 == Elim(A1) IN E1.rank = E0.rank /\ \A i \in 0 .. E0.rank - 1 : E1.r[i] = E0.r[i]
\* completing a row echelon form: the same RREF
TopEchelonOK(A0, A1) == IsREF(A0) => Eq(A1, RREF(A0))

\* ---- C03 PLE / PLUQ -------------------------------------------------------------
\* A1 = overwritten matrix, P, Q = permutations after the call, r = returned rank.
\* L, U are read from A1 exactly as the documentation / tests/test_ple.c read them: for PLE the
\* compressed echelon factor is first brought to upper triangular shape by the triangular
\* transposed right application of Q.
FactL(A2, r) == Mat(A2.m, r, [i \in Rows(A2) |-> {c \in A2.r[i] : c < Min({i, r})} \cup (IF i < r THEN {i} ELSE {})])
FactU(A2, r) == Mat(r, A2.n, [i \in 0 .. r - 1 |-> {c \in A2.r[i] : c > i} \cup {i}])
PLEOK(A0, A1, P, Q, r, isple) ==
  LET E0 == Elim(A0)
      A2 == IF isple = 1 THEN ApplyPRightTransTriSem(A1, Q) ELSE A1
  IN /\ r = E0.rank
     /\ ValidLapack(P, A0.m) /\ ValidLapack(Q, A0.n)
     /\ \A i \in 1 .. r : Q[i] = E0.piv[i]                 \* pivot columns = column rank profile
     /\ \A i \in r .. A0.m - 1 : \A c \in A1.r[i] : c < r  \* nothing stored outside L and U/E
     /\ Eq(Mul(FactL(A2, r), FactU(A2, r)), ApplyPRightTransSem(ApplyPLeft(A0, P), Q))

\* ---- C04 TRSM: only the named triangle (with a unit diagonal) of T is read ------
TrsmOK(variant, T, B0, X) ==
  CASE variant = "trsm_upper_right" -> Eq(Mul(X, UnitUpper(T)), B0)
    [] variant = "trsm_lower_right" -> Eq(Mul(X, UnitLower(T)), B0)
    [] variant = "trsm_lower_left" -> Eq(Mul(UnitLower(T), X), B0)
    [] variant = "trsm_upper_left" -> Eq(Mul(UnitUpper(T), X), B0)

\* ---- C05 inversion ----------------------------------------------------------------
InverseOK(A, B) == IsInverse(A, B)
TrtriOK(U0, U1) == IsUnitUpper(U1) /\ Eq(Mul(U0, U1), Id(U0.n))

\* ---- C06 solving: B has max(m,n) rows, A is padded with zero rows when m < n -------
SolveOKc(A0, B0, B1, ret, check) ==
  LET m == A0.m  n == A0.n  w == B0.n
      Apad == IF m < n THEN Stack(A0, Zero(n - m, n)) ELSE A0
      cons == Consistent(Apad, B0)
  IN IF check = 1
     THEN /\ ret = (IF cons THEN 0 ELSE -1)
          /\ ret = 0 => Eq(Mul(A0, Sub(B1, 0, 0, n, w)), Sub(B0, 0, 0, m, w))
     \* without the consistency check the verdict is always 0; for a consistent system the solution must still be one
     ELSE /\ ret = 0
          /\ cons => Eq(Mul(A0, Sub(B1, 0, 0, n, w)), Sub(B0, 0, 0, m, w))
SolveOK(A0, B0, B1, ret) == SolveOKc(A0, B0, B1, ret, 1)

\* ---- C07 kernel: hasK = a matrix was returned; K its value --------------------------
KernelOK(A0, hasK, K) ==
  LET r == Rank(A0) IN
  IF r = A0.n THEN ~hasK
  ELSE /\ hasK /\ K.m = A0.n /\ K.n = A0.n - r
       /\ IsZero(Mul(A0, K))
       /\ Rank(Transpose(K)) = A0.n - r
=============================================================================
