-------------------------------- MODULE Ops --------------------------------
(***************************************************************************)
(* Semantics of the public operations of the library as operators over GF2 *)
(* values: functional where the property is functional (products, RREF,    *)
(* inverse, TRSM, data movement), relational (a predicate over the outcome)*)
(* where the property is relational (echelon forms without full reduction, *)
(* PLE/PLUQ, kernel, pivot search).  Used by Store.tla (state machine),    *)
(* by the generators and by the trace validators, so what is model-checked *)
(* is what judges the implementation.                                      *)
(***************************************************************************)
EXTENDS GF2

\* ---- C01 products -------------------------------------------------------
MulSem(A, B) == Mul(A, B)
AddMulSem(C, A, B) == Add(C, Mul(A, B))
MulDimsOK(A, B) == A.n = B.m
=============================================================================
