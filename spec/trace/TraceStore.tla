----------------------------- MODULE TraceStore -----------------------------
(***************************************************************************)
(* Stateful trace validation of a run of the "prog" family: the trace is    *)
(* walked CARRYING the store of spec/Store.tla.  For every step of the      *)
(* program (pstep line) the specification's action is taken with the logged *)
(* arguments; for steps that call the library the recorded raw memory of    *)
(* every root touched by the call must equal the specification's state      *)
(* BEFORE the call (nothing changed it behind the back of the events: what  *)
(* one call leaves is what the next one finds) and AFTER it (the new state  *)
(* is the one Ops.tla defines, on the whole root: also the cells around a   *)
(* window).  After the first divergence of a program the rest of it is only *)
(* consumed (the specification's state is no longer the code's).            *)
(***************************************************************************)
EXTENDS Store, Json, IOUtils, SequencesExt, TLC

Tr == ndJsonDeserialize(IOEnv.TRACE)
N == Len(Tr)

VARIABLES l, cur, div, nops, nbad
vars == <<objs, mem, l, cur, div, nops, nbad>>

RawRows(d) == TLCEval([i \in 0 .. Tr[d].m - 1 |-> ToSet(Tr[d].rows[i + 1])])
\* the logged root restricted to its columns (the padding is judged by TraceOps)
RootAt(d) == Mat(Tr[d].m, Tr[d].n, [i \in 0 .. Tr[d].m - 1 |-> {c \in RawRows(d)[i] : c < Tr[d].n}])
\* the view of operand o inside its logged root d
RootAtN(d, o) == Sub(RootAt(d), o.r0, o.c0, o.m, o.n)
ModelRoot(ob, ms, h) == LET r == ob[h].root IN Mat(ob[r].m, ob[r].n, ms[r])

\* handles of a step in the order of the operands of its op event
StepHandles(s) ==
  CASE s.op \in {"add", "mul", "addmul"} -> <<s.c, s.a, s.b>>
    [] s.op \in {"concat", "stack"} -> <<s.d, s.a, s.b>>
    [] s.op \in {"copy", "transpose", "submatrix", "extract_u", "extract_l", "copy_row"} -> <<s.d, s.a>>
    [] s.op \in {"equal"} -> <<s.a, s.b>>
    [] s.op = "is_zero" -> <<s.a>>
    [] OTHER -> <<s.h>>

RelOK(s, ev) ==
  CASE s.op \in {"ple", "pluq"} -> PLEOK(Value(s.h), RootAtN(ev.o[1].post, ev.o[1]), ev.p.P, ev.p.Q, ev.ret, IF s.op = "ple" THEN 1 ELSE 0)
    [] s.op = "echelonize_nf" -> EchelonOK(Value(s.h), RootAtN(ev.o[1].post, ev.o[1]), ev.ret, 0)
    [] OTHER -> TRUE
\* ev: the op event of the step (relational steps take their outcome from it, after the predicate)
Act(s, ev) ==
  CASE s.op = "new" -> New(s.h, s.m, s.n, s.seed)
    \* relational steps: the recorded outcome is adopted; whether it satisfies the relation ON THE SPECIFICATION'S STATE is RelOK
    [] s.op \in {"ple", "pluq", "echelonize_nf"} -> Put(s.h, RootAtN(ev.o[1].post, ev.o[1])) /\ UNCHANGED objs
    [] s.op \in {"equal", "is_zero"} -> Observe(s.a, s.a)
    [] s.op = "win" -> Win(s.h, s.p, s.r0, s.c0, s.m, s.n)
    [] s.op = "free" -> Free(s.h)
    [] s.op = "add" -> Add3(s.c, s.a, s.b)
    [] s.op = "mul" -> Mul3(s.c, s.a, s.b, FALSE)
    [] s.op = "addmul" -> Mul3(s.c, s.a, s.b, TRUE)
    [] s.op = "copy" -> Copy2(s.d, s.a)
    [] s.op = "transpose" -> Transpose2(s.d, s.a)
    [] s.op = "submatrix" -> Submatrix2(s.d, s.a, s.lr, s.lc, s.hr, s.hc)
    [] s.op = "extract_u" -> ExtractTri2(s.d, s.a, TRUE)
    [] s.op = "extract_l" -> ExtractTri2(s.d, s.a, FALSE)
    [] s.op = "copy_row" -> CopyRow2(s.d, s.i, s.a, s.j)
    [] s.op = "concat" -> Concat3(s.d, s.a, s.b)
    [] s.op = "stack" -> Stack3(s.d, s.a, s.b)
    [] s.op = "set_ui" -> SetUi(s.h, s.v)
    [] s.op = "row_swap" -> RowSwap2(s.h, s.i, s.j)
    [] s.op = "col_swap" -> ColSwap2(s.h, s.i, s.j)
    [] s.op = "row_add" -> RowAdd2(s.h, s.src, s.dst)
    [] s.op = "echelonize" -> Echelonize(s.h)

Init == StoreInit /\ l = 1 /\ cur = [op |-> "none"] /\ div = FALSE /\ nops = 0 /\ nbad = 0

\* a pstep line: steps without a library call are taken at once, the others wait for their op event
PStep ==
  /\ l <= N /\ Tr[l].e = "pstep" /\ l' = l + 1
  /\ LET s == Tr[l].s IN
     IF s.op \in {"win", "free"}
     THEN Act(s, [e |-> "none"]) /\ cur' = [op |-> "none"] /\ UNCHANGED <<div, nops, nbad>>
     ELSE cur' = s /\ UNCHANGED <<objs, mem, div, nops, nbad>>

\* the op event of the pending step
OpStep ==
  /\ l <= N /\ Tr[l].e = "op" /\ cur.op # "none" /\ l' = l + 1 /\ cur' = [op |-> "none"] /\ nops' = nops + 1
  /\ LET ev == Tr[l]  hs == StepHandles(cur) IN
     /\ Act(cur, ev)
     /\ IF div THEN UNCHANGED <<div, nbad>>
        ELSE LET \* "new" creates its handle in this step: its pre-state is judged by TraceOps (fresh storage is zero)
                 preBad == cur.op # "new" /\ \E k \in 1 .. Len(hs) : ~Eq(RootAt(ev.o[k].pre), ModelRoot(objs, mem, hs[k]))
                 postBad == \E k \in 1 .. Len(hs) : ~Eq(RootAt(ev.o[k].post), ModelRoot(objs', mem', hs[k]))
                 obsBad == (cur.op = "equal" /\ ev.ret # EqualSem(Value(cur.a), Value(cur.b))) \/ (cur.op = "is_zero" /\ ev.ret # IsZeroSem(Value(cur.a)))
                 f == (IF ev.die = 1 THEN {"unexpected_die"} ELSE {}) \cup (IF preBad THEN {"state_before_step"} ELSE {})
                      \cup (IF obsBad THEN {"observer_on_state"} ELSE {}) \cup (IF ev.die = 0 /\ ~RelOK(cur, ev) THEN {"relation_on_state"} ELSE {})
                      \cup (IF postBad THEN {"state_after_step"} ELSE {})
             IN IF f = {} THEN UNCHANGED <<div, nbad>>
                ELSE PrintT(<<"VFAIL", l, cur.op, f>>) /\ div' = TRUE /\ nbad' = nbad + 1

\* a new program starts from the empty store
Reset ==
  /\ l <= N /\ Tr[l].e = "preset" /\ l' = l + 1
  /\ objs' = [h \in Handles |-> NoObj] /\ mem' = [h \in Handles |-> << >>] /\ cur' = [op |-> "none"] /\ div' = FALSE
  /\ UNCHANGED <<nops, nbad>>
Crash ==
  /\ l <= N /\ Tr[l].e = "crash" /\ l' = l + 1
  /\ PrintT(<<"VCRASH", l, Tr[l].sig, Tr[l].code>>) /\ nbad' = nbad + 1 /\ div' = TRUE /\ UNCHANGED <<objs, mem, cur, nops>>
Skip ==
  /\ l <= N /\ ~(Tr[l].e \in {"pstep", "preset", "crash"}) /\ ~(Tr[l].e = "op" /\ cur.op # "none")
  /\ l' = l + 1 /\ UNCHANGED <<objs, mem, cur, div, nops, nbad>>
Done == l = N + 1 /\ PrintT(<<"VDONE", N, nops, nbad>>) /\ l' = N + 2 /\ UNCHANGED <<objs, mem, cur, div, nops, nbad>>
Next == PStep \/ OpStep \/ Reset \/ Crash \/ Skip \/ Done
Spec == Init /\ [][Next]_vars
=============================================================================
