------------------------------ MODULE TraceOps ------------------------------
(***************************************************************************)
(* Trace validator (DESIGN.md 3.4): walks a recorded ndjson trace of public *)
(* calls of the real library and judges every event with the Store/GF2     *)
(* specification.  State is tiny (position l, number of rejected events);   *)
(* the trace itself is the module-level constant Tr.                        *)
(* Rejections are printed as  <<"VFAIL", line, op, {reasons}>>  and the     *)
(* walk goes on (report-and-resync); <<"VDONE", lines, ops, nbad>> is       *)
(* printed when every line has been consumed.                               *)
(***************************************************************************)
EXTENDS Ops, Json, IOUtils, SequencesExt

Tr == ndJsonDeserialize(IOEnv.TRACE)
N == Len(Tr)

VARIABLES l, nops, nbad
vars == <<l, nops, nbad>>

-----------------------------------------------------------------------------
\* raw memory of a root owner as logged in def line d: all w*64 bit positions of every row
RawRows(d) == TLCEval([i \in 0 .. Tr[d].m - 1 |-> ToSet(Tr[d].rows[i + 1])])
Raw(d) == Mat(Tr[d].m, Tr[d].w * 64, RawRows(d))
ViewAt(o, d) == Sub(Raw(d), o.r0, o.c0, o.m, o.n)
Pre(o) == ViewAt(o, o.pre)
Post(o) == ViewAt(o, o.post)

Opnds(ev) == {ev.o[k] : k \in 1 .. Len(ev.o)}
Present(ev) == {o \in Opnds(ev) : o.post > 0}

\* C09/C13/C08 frame: bits of a root may change only inside the views of written operands
Writable(ev, d, i) ==
  UNION {o.c0 .. (o.c0 + o.n - 1) : o \in {x \in Opnds(ev) : x.pre = d /\ x.role \in {"o", "b"}
                                                         /\ i >= x.r0 /\ i < x.r0 + x.m}}
FrameOK(ev) ==
  \A o \in {x \in Opnds(ev) : x.pre > 0} :
     o.pre = o.post \/
       LET a == RawRows(o.pre)  b == RawRows(o.post) IN
       \A i \in 0 .. Tr[o.pre].m - 1 : a[i] = b[i] \/ Xor(a[i], b[i]) \subseteq Writable(ev, o.pre, i)

\* C10 padding: every owner has zero bits beyond its last column (checked on every root that the
\* call produced or changed)
PadOK(ev) ==
  \A o \in {x \in Present(ev) : x.post # x.pre} :
     \A i \in 1 .. Tr[o.post].m : \A c \in ToSet(Tr[o.post].rows[i]) : c < Tr[o.post].n

\* no live matrix other than the operands changed
NoStray(ev) == Len(ev.stray) = 0

\* a call that ended in the library's error handler must not have touched anything
DieClean(ev) == ev.die = 0 \/ \A o \in Opnds(ev) : o.pre = o.post

-----------------------------------------------------------------------------
\* result predicates per operation.  Operand positions are fixed per family.
O(ev, k) == ev.o[k]
HasR(ev) == ev.o[Len(ev.o)].role = "r"
\* the matrix holding the result: the returned fresh one if the call allocated it, else operand k
OutOf(ev, k) == IF HasR(ev) THEN ev.o[Len(ev.o)] ELSE ev.o[k]

MulFamily == {"mul_naive", "addmul_naive", "_mul_naive_t", "_mul_va", "mul_m4rm", "addmul_m4rm",
              "_mul_m4rm", "mul", "addmul", "_mul_even", "_addmul_even", "_addmul", "sqr",
              "addsqr", "mul_mp", "addmul_mp", "djb"}

MulOK(ev) ==
  LET A == Pre(O(ev, 2))
      B == IF ev.p.bt = 1 THEN Transpose(Pre(O(ev, 3))) ELSE Pre(O(ev, 3))
      out == OutOf(ev, 1)
      prod == Mul(A, B)
      want == IF ev.p.acc = 1 THEN Add(Pre(O(ev, 1)), prod) ELSE prod
  IN Eq(Post(out), want)

ResultOK(ev) ==
  CASE ev.op \in MulFamily -> MulOK(ev)
    [] OTHER -> TRUE

Known(ev) == ev.op \in MulFamily

Checks(ev) ==
  IF ev.die = 1
  THEN (IF DieClean(ev) THEN {} ELSE {"die_touched"}) \cup {"unexpected_die"}
  ELSE (IF FrameOK(ev) THEN {} ELSE {"frame"})
       \cup (IF PadOK(ev) THEN {} ELSE {"padding"})
       \cup (IF NoStray(ev) THEN {} ELSE {"stray"})
       \cup (IF ~Known(ev) THEN {"unknown_op"} ELSE IF ResultOK(ev) THEN {} ELSE {"result"})

-----------------------------------------------------------------------------
Init == l = 1 /\ nops = 0 /\ nbad = 0

Step ==
  /\ l <= N
  /\ l' = l + 1
  /\ IF Tr[l].e = "op"
     THEN LET f == Checks(Tr[l]) IN
          /\ nops' = nops + 1
          /\ IF f = {} THEN nbad' = nbad
             ELSE /\ PrintT(<<"VFAIL", l, Tr[l].op, f>>)
                  /\ nbad' = nbad + 1
     ELSE IF Tr[l].e = "crash"
     THEN /\ PrintT(<<"VCRASH", l, Tr[l].sig, Tr[l].code>>)
          /\ nops' = nops /\ nbad' = nbad + 1
     ELSE UNCHANGED <<nops, nbad>>

Done ==
  /\ l = N + 1
  /\ PrintT(<<"VDONE", N, nops, nbad>>)
  /\ l' = N + 2
  /\ UNCHANGED <<nops, nbad>>

Next == Step \/ Done
Spec == Init /\ [][Next]_vars
=============================================================================
