------------------------------ MODULE TraceOps ------------------------------
(***************************************************************************)
(* Trace validator (DESIGN.md 3.4): walks a recorded ndjson trace of public *)
(* calls of the real library and judges every event with the Store/GF2     *)
(* specification.  State is tiny (position l, number of rejected events);   *)
(* the trace itself is the module-level constant Tr.                        *)
(* Rejections are printed as  <<"VFAIL", line, op, {reasons}>>  and the     *)
(* walk goes on (report-and-resync); <<"VDONE", lines, ops, nbad>> is       *)
(* printed when every line has been consumed.                               *)
(***************************************************************************)
EXTENDS Ops, Gray, BitKernels, JCF, Json, IOUtils, SequencesExt

Tr == ndJsonDeserialize(IOEnv.TRACE)
N == Len(Tr)

VARIABLES l, nops, nbad
vars == <<l, nops, nbad>>

-----------------------------------------------------------------------------
\* raw memory of a root owner as logged in def line d: all w*64 bit positions of every row
RawRows(d) == TLCEval([i \in 0 .. Tr[d].m - 1 |-> ToSet(Tr[d].rows[i + 1])])
Raw(d) == Mat(Tr[d].m, Tr[d].w * 64, RawRows(d))
ViewAt(o, d) == Sub(Raw(d), o.r0, o.c0, o.m, o.n)
Pre(o) == ViewAt(o, o.pre)
Post(o) == ViewAt(o, o.post)

Opnds(ev) == {ev.o[k] : k \in 1 .. Len(ev.o)}
Present(ev) == {o \in Opnds(ev) : o.post > 0}

\* C09/C13/C08 frame: bits of a root may change only inside the views of written operands
Writable(ev, d, i) ==
  UNION {o.c0 .. (o.c0 + o.n - 1) : o \in {x \in Opnds(ev) : x.pre = d /\ x.role \in {"o", "b"}
                                                         /\ i >= x.r0 /\ i < x.r0 + x.m}}
FrameOK(ev) ==
  \A o \in {x \in Opnds(ev) : x.pre > 0} :
     o.pre = o.post \/
       LET a == RawRows(o.pre)  b == RawRows(o.post) IN
       \A i \in 0 .. Tr[o.pre].m - 1 : a[i] = b[i] \/ Xor(a[i], b[i]) \subseteq Writable(ev, o.pre, i)

\* C10 padding: every owner has zero bits beyond its last column (checked on every root that the
\* call produced or changed)
PadOK(ev) ==
  \A o \in {x \in Present(ev) : x.post # x.pre} :
     \A i \in 1 .. Tr[o.post].m : \A c \in ToSet(Tr[o.post].rows[i]) : c < Tr[o.post].n

\* no live matrix other than the operands changed
NoStray(ev) == Len(ev.stray) = 0

\* C11: every temporary allocated by a call is released again: the number of live heap blocks changes
\* exactly by what the call returned (the harness computes leak = change - returned; exact in builds
\* without the allocator caches, 0 is logged otherwise)

\* a call that ended in the library's error handler must not have touched anything
DieClean(ev) == ev.die = 0 \/ \A o \in Opnds(ev) : o.pre = o.post

-----------------------------------------------------------------------------
\* result predicates per operation.  Operand positions are fixed per family.
O(ev, k) == ev.o[k]
HasR(ev) == ev.o[Len(ev.o)].role = "r"
\* the matrix holding the result: the returned fresh one if the call allocated it, else operand k
OutOf(ev, k) == IF HasR(ev) THEN ev.o[Len(ev.o)] ELSE ev.o[k]

MulFamily == {"mul_naive", "addmul_naive", "_mul_naive_t", "_mul_va", "mul_m4rm", "addmul_m4rm",
              "_mul_m4rm", "mul", "addmul", "_mul_even", "_addmul_even", "_addmul", "sqr",
              "addsqr", "mul_mp", "addmul_mp", "djb"}

MulOK(ev) ==
  LET A == Pre(O(ev, 2))
      B == IF ev.p.bt = 1 THEN Transpose(Pre(O(ev, 3))) ELSE Pre(O(ev, 3))
      out == OutOf(ev, 1)
      prod == Mul(A, B)
      want == IF ev.p.acc = 1 /\ O(ev, 1).pre > 0 THEN Add(Pre(O(ev, 1)), prod) ELSE prod      \* accumulate into NULL = into the zero matrix
  IN Eq(Post(out), want)

\* a 64-bit value logged as a "words" line: set of bit positions
BitsAt(d) == ToSet(Tr[d].bits)
PSeq(p) == p              \* permutations are logged as JSON arrays = TLA+ sequences

\* data movement (C08): operand 1 = destination (possibly NULL), result possibly returned fresh
MoveOK(ev) ==
  LET op == ev.op  out == OutOf(ev, 1)  res == Post(out) IN
  CASE op \in {"add", "_add"} -> Eq(res, AddSem(Pre(O(ev, 2)), Pre(O(ev, 3))))
    [] op = "transpose" -> Eq(res, TransposeSem(Pre(O(ev, 2))))
    [] op = "copy" -> IF HasR(ev) THEN Eq(res, Pre(O(ev, 2))) ELSE Eq(res, CopySem(Pre(O(ev, 1)), Pre(O(ev, 2))))
    [] op = "copy_row" -> Eq(res, CopyRowSem(Pre(O(ev, 1)), ev.p.i, Pre(O(ev, 2)), ev.p.j))
    \* a supplied destination larger than the block receives it in its upper left corner and keeps the rest
    [] op = "submatrix" -> LET B == SubmatrixSem(Pre(O(ev, 2)), ev.p.lr, ev.p.lc, ev.p.hr, ev.p.hc) IN
                           IF HasR(ev) THEN Eq(res, B) ELSE Eq(res, CopySem(Pre(O(ev, 1)), B))
    [] op = "concat" -> Eq(res, ConcatSem(Pre(O(ev, 2)), Pre(O(ev, 3))))
    [] op = "stack" -> Eq(res, StackSem(Pre(O(ev, 2)), Pre(O(ev, 3))))
    [] op = "extract_u" -> Eq(res, ExtractUSem(Pre(O(ev, 2))))
    [] op = "extract_l" -> Eq(res, ExtractLSem(Pre(O(ev, 2))))
    [] op = "set_ui" -> Eq(res, SetUiSem(Pre(O(ev, 1)), ev.p.v))
    [] op = "prog_new" -> LET A0 == Pre(O(ev, 1)) IN      \* a step of a Store program: fresh storage is zero (C14), then the pattern is written
                          IsZero(A0) /\ Eq(res, IF ev.p.seed = 0 THEN Zero(A0.m, A0.n) ELSE Pat(A0.m, A0.n, ev.p.seed))
    [] op \in {"randomize", "randomize_custom"} -> SameDims(res, Pre(O(ev, 1)))     \* contents unspecified: frame and padding are judged
MoveFamily == {"add", "_add", "transpose", "copy", "copy_row", "submatrix", "concat", "stack",
               "extract_u", "extract_l", "set_ui", "randomize", "randomize_custom", "prog_new"}

\* row/column operations (C13): operand 1 = the matrix operated on in place
RowOpsOK(ev) ==
  LET op == ev.op  A == Pre(O(ev, 1))  res == Post(O(ev, 1))  p == ev.p IN
  CASE op = "row_swap" -> Eq(res, RowSwapSem(A, p.a, p.b))
    \* _mzd_row_swap: the two rows exchange their entries from column 64 * sb on
    [] op = "_row_swap" -> Eq(res, Mat(A.m, A.n, [i \in Rows(A) |->
                                  IF p.a = p.b \/ i \notin {p.a, p.b} THEN A.r[i]
                                  ELSE LET o == IF i = p.a THEN p.b ELSE p.a IN {c \in A.r[i] : c < 64 * p.sb} \cup {c \in A.r[o] : c >= 64 * p.sb}]))
    [] op = "col_swap" -> Eq(res, ColSwapSem(A, p.a, p.b))
    [] op = "col_swap_in_rows" -> Eq(res, ColSwapInRowsSem(A, p.a, p.b, p.r0, p.r1))
    [] op = "row_add" -> Eq(res, RowAddSem(A, p.src, p.dst))
    [] op = "row_add_offset" -> Eq(res, RowAddOffsetSem(A, p.dst, p.src, p.off))
    [] op = "row_clear_offset" -> Eq(res, RowClearOffsetSem(A, p.row, p.off))
    [] op = "xor_bits" -> Eq(res, XorBitsSem(A, p.x, p.y, p.n, BitsAt(p.L_v)))
    [] op = "and_bits" -> Eq(res, AndBitsSem(A, p.x, p.y, p.n, BitsAt(p.L_v)))
    [] op = "clear_bits" -> Eq(res, ClearBitsSem(A, p.x, p.y, p.n))
    [] op \in {"read_bits", "read_bits_int"} -> Eq(res, A) /\ BitsAt(p.L_got) = ReadBitsSem(A, p.x, p.y, p.n)
    [] op = "write_bit" -> Eq(res, WriteBitSem(A, p.x, p.y, p.v))
    [] op = "read_bit" -> Eq(res, A) /\ ev.ret = ReadBitSem(A, p.x, p.y)
    [] op = "combine" -> Eq(res, CombineSem(A, p.cr, Pre(O(ev, 2)), p.ar, Pre(O(ev, 3)), p.br, p.sb, 64))
    [] op = "apply_p_left" -> Eq(res, ApplyPLeftSem(A, p.P))
    [] op = "apply_p_left_trans" -> Eq(res, ApplyPLeftTransSem(A, p.P))
    [] op = "apply_p_right" -> Eq(res, ApplyPRightSem(A, p.P))
    [] op = "apply_p_right_trans" -> Eq(res, ApplyPRightTransSem(A, p.P))
    [] op = "apply_p_right_trans_tri" -> Eq(res, ApplyPRightTransTriSem(A, p.P))
    [] op = "apply_p_right_capped" -> Eq(res, IF p.sr >= A.m THEN A ELSE Embed(A, p.sr, 0, ApplyPRightSem(Sub(A, p.sr, 0, A.m - p.sr, A.n), p.P)))
    [] op = "apply_p_right_trans_capped" -> Eq(res, IF p.sr >= A.m THEN A ELSE Embed(A, p.sr, 0, ApplyPRightTransSem(Sub(A, p.sr, 0, A.m - p.sr, A.n), p.P)))
RowOpsFamily == {"row_swap", "_row_swap", "col_swap", "col_swap_in_rows", "row_add", "row_add_offset",
                 "row_clear_offset", "xor_bits", "and_bits", "clear_bits", "read_bits", "read_bits_int",
                 "write_bit", "read_bit", "combine", "apply_p_left", "apply_p_left_trans",
                 "apply_p_right", "apply_p_right_trans", "apply_p_right_trans_tri",
                 "apply_p_right_capped", "apply_p_right_trans_capped"}

\* observers (C17)
ObsOK(ev) ==
  LET op == ev.op  A == Pre(O(ev, 1))  p == ev.p IN
  CASE op = "equal" -> ev.ret = EqualSem(A, Pre(O(ev, 2)))
    [] op = "cmp" -> ev.ret = CmpSem(A, Pre(O(ev, 2)))
    [] op = "is_zero" -> ev.ret = IsZeroSem(A)
    [] op = "find_pivot" -> FindPivotOK(A, p.sr, p.sc, ev.ret, p.r, p.c)
    [] op = "first_zero_row" -> ev.ret = FirstZeroRowSem(A)
    [] op = "density" -> ev.ret >= 0 /\ ev.ret <= 1000000   \* a sampled estimate by design: range only
    [] op = "hash2" -> ev.ret = 1
ObsFamily == {"equal", "cmp", "is_zero", "find_pivot", "first_zero_row", "density", "hash2"}

\* elimination, factorisation, triangular solves, inversion, solving, kernel (C02-C07)
ElimFamily == {"echelonize_naive", "echelonize_m4ri", "echelonize_pluq", "echelonize", "_echelonize_m4ri"}
PleFamily == {"ple", "pluq", "_ple", "_pluq", "_ple_naive", "_pluq_naive", "_ple_russian", "_pluq_russian"}
TrsmFamily == {"trsm_upper_right", "trsm_lower_right", "trsm_lower_left", "trsm_upper_left"}
AlgFamily == ElimFamily \cup PleFamily \cup TrsmFamily \cup
             {"top_echelonize_m4ri", "inv_m4ri", "invert_naive", "trtri_upper", "trtri_upper_russian",
              "solve_left", "_solve_left", "pluq_solve_left", "_pluq_solve_left", "kernel_left_pluq"}
AlgOK(ev) ==
  LET op == ev.op  p == ev.p IN
  CASE op \in ElimFamily -> EchelonOK(Pre(O(ev, 1)), Post(O(ev, 1)), ev.ret, p.full)
    [] op = "top_echelonize_m4ri" -> TopEchelonOK(Pre(O(ev, 1)), Post(O(ev, 1)))
    [] op \in PleFamily -> PLEOK(Pre(O(ev, 1)), Post(O(ev, 1)), p.P, p.Q, ev.ret, p.isple)
    [] op \in TrsmFamily -> Eq(Post(O(ev, 1)), Pre(O(ev, 1))) /\ TrsmOK(op, Pre(O(ev, 1)), Pre(O(ev, 2)), Post(O(ev, 2)))
    [] op \in {"inv_m4ri", "invert_naive"} -> InverseOK(Pre(O(ev, 2)), Post(OutOf(ev, 1)))
    [] op \in {"trtri_upper", "trtri_upper_russian"} -> TrtriOK(Pre(O(ev, 1)), Post(O(ev, 1)))
    [] op \in {"solve_left", "_solve_left", "pluq_solve_left", "_pluq_solve_left"} ->
         SolveOKc(Pre(O(ev, 3)), Pre(O(ev, 2)), Post(O(ev, 2)), ev.ret, IF "check" \in DOMAIN p THEN p.check ELSE 1)
    [] op = "kernel_left_pluq" -> KernelOK(Pre(O(ev, 2)), HasR(ev), Post(ev.o[Len(ev.o)]))

\* word-level kernels and the code book (C19): the dumped data is judged against spec/alg
SeqEq(s, f(_), n) == Len(s) = n /\ \A j \in 1 .. n : s[j] = f(j - 1)
\* the k-bit index x selects rows r+j for the bits j of x; only columns >= c are specified
TableRowOK(M, T, L, r, c, k, x) ==
  LET want == XorRows({r + j : j \in BitsOfInt(x, k)}, M.r) IN
  {cc \in T.r[L[x + 1]] : cc >= c} = {cc \in want : cc >= c}
WordKernelFamily == {"code", "make_table", "parity64", "masks", "swap_bits", "spread_shrink", "lesser_lsb", "word_to_str", "mzp_copy"}
\* m4ri_word_to_str: '1' (49) / ' ' (32) per bit from bit 0 on, with colon = 1 a ':' (58) BEFORE every fourth bit but the first
RECURSIVE WordStr(_, _, _)
WordStr(bits, colon, i) ==
  IF i >= 64 THEN << >>
  ELSE (IF colon = 1 /\ i % 4 = 0 /\ i # 0 THEN <<58>> ELSE << >>) \o <<IF i \in bits THEN 49 ELSE 32>> \o WordStr(bits, colon, i + 1)
WordKernelOK(ev) ==
  LET op == ev.op  p == ev.p IN
  CASE op = "code" ->
         LET k == p.k  n == 2 ^ p.k  a == Tr[p.L_arr] IN
         /\ p.gray_eq_ord = 1
         /\ Len(a.ord) = n /\ Len(a.inc) = n
         /\ \A j \in 0 .. n - 1 : a.ord[j + 1] = GrayCode(j, k) /\ a.inc[j + 1] = IncOf(j, k)
         \* the properties themselves, evaluated on the dumped data
         /\ {a.ord[j] : j \in 1 .. n} = 0 .. n - 1
         /\ \A j \in 0 .. n - 1 :
               LET x == BitsOfInt(a.ord[j + 1], k)  y == BitsOfInt(a.ord[((j + 1) % n) + 1], k)
               IN Xor(x, y) = {a.inc[j + 1]}
    [] op = "make_table" ->
         LET M == Pre(O(ev, 1))  T == Post(O(ev, 2)) IN
         /\ Len(p.L) = 2 ^ p.k
         /\ {p.L[j] : j \in 1 .. 2 ^ p.k} = 0 .. 2 ^ p.k - 1
         /\ \A x \in 0 .. 2 ^ p.k - 1 : TableRowOK(M, T, p.L, p.r, p.c, p.k, x)
    [] op = "parity64" -> BitsAt(p.L_res) = Parity64(BitsAt(p.L_buf))
    [] op = "masks" ->
         /\ BitsAt(p.L_left) = LeftMask(p.n)
         /\ (p.n >= 1 => BitsAt(p.L_right) = RightMask(p.n))
         /\ (p.n >= 1 => /\ p.nmid = WB - p.n + 1
                          /\ LET mids == BitsAt(p.L_mid) IN
                             \A off \in 0 .. p.nmid - 1 :
                                {b - off * WB : b \in {x \in mids : x >= off * WB /\ x < (off + 1) * WB}} = MiddleMask(p.n, off))
    [] op = "swap_bits" -> BitsAt(p.L_res) = SwapBits(BitsAt(p.L_v))
    [] op = "spread_shrink" ->
         LET from == BitsAt(p.L_from)  low == {b \in from : b < p.len} IN
         /\ BitsAt(p.L_spread) = Spread(low, p.Q, p.len, p.base)
         /\ BitsAt(p.L_shrink) = Shrink(from, p.Q, p.len, p.base)
         /\ BitsAt(p.L_back) = low                       \* mutually inverse
    [] op = "lesser_lsb" -> ev.ret = LesserLSB(BitsAt(p.L_a), BitsAt(p.L_b))
    \* the text, its terminator inside the documented buffer size, nothing written behind the buffer
    \* mzp_copy: the supplied target (or a fresh one of Q's length) is returned and its first Len(Q) entries are Q's.
    \* (What happens to the tail of a longer target, and mzp_set_ui, are recorded but not judged: no listed property speaks
    \* of them; the point of these cases is that the copy stays inside both arrays - C11, under the sanitizers.)
    [] op = "mzp_copy" -> /\ ev.die = 0 /\ "R" \in DOMAIN p /\ p.same = 1
                          /\ Len(p.R) = (IF p.lp < 0 THEN Len(p.Q) ELSE p.lp)
                          /\ \A i \in 1 .. Len(p.Q) : p.R[i] = p.Q[i]
    [] op = "word_to_str" -> p.guard = 1 /\ p.terminated = 1 /\ p.s = WordStr(BitsAt(p.L_w), p.colon, 0)

\* file I/O (C18)
IOFamily == {"png_roundtrip", "from_str", "jcf", "png_foreign"}
Rejected(out) == out \in {"null", "die", "terminated"}
IOOK(ev) ==
  LET op == ev.op  p == ev.p IN
  CASE op = "png_roundtrip" -> ev.ret = 0 /\ HasR(ev) /\ Eq(Post(ev.o[Len(ev.o)]), Pre(O(ev, 1)))
    [] op = "from_str" ->
         HasR(ev) /\ Eq(Post(ev.o[Len(ev.o)]),
                         Mat(p.m, p.n, [i \in 0 .. p.m - 1 |-> {j \in 0 .. p.n - 1 : (i * p.n + j) \in ToSet(p.ones)}]))
    [] op = "jcf" ->
         LET P == Parse(p.toks, p.gpos)
             got == IF p.out = "matrix" THEN Post(ev.o[Len(ev.o)]) ELSE Zero(0, 0) IN
         /\ p.san = 0 /\ p.out \notin {"crash", "huge"}
         /\ (IF P.k = "matrix" THEN p.out = "matrix" /\ Eq(got, P.M)
             ELSE IF P.k = "reject" THEN Rejected(p.out)
             ELSE Rejected(p.out) \/ (p.out = "matrix" /\ Eq(got, P.M)))
    [] op = "png_foreign" ->
         LET supported == p.depth = 1 /\ p.ctype \in {0, 3} /\ p.interlace = 0
             got == IF p.out = "matrix" THEN Post(ev.o[Len(ev.o)]) ELSE Zero(0, 0) IN
         /\ p.san = 0 /\ p.out \notin {"crash", "huge"}
         /\ (p.out = "matrix" => supported /\ got.m = p.h /\ got.n = p.w)
         /\ (p.mut = 0 /\ supported => p.out = "matrix")

\* operations that hand back their result in operand 1 or in a freshly allocated matrix: one of the two must exist
\* (a NULL return where a matrix is due is a wrong result, not something to evaluate)
NeedsOut == MulFamily \cup {"add", "_add", "transpose", "copy", "submatrix", "concat", "stack", "extract_u", "extract_l", "inv_m4ri", "invert_naive"}
OutMissing(ev) == ev.op \in NeedsOut /\ ev.die = 0 /\ OutOf(ev, 1).post = 0
ResultOK(ev) ==
  CASE OutMissing(ev) -> FALSE
    [] ev.op \in MulFamily -> MulOK(ev)
    [] ev.op \in IOFamily -> IOOK(ev)
    [] ev.op \in WordKernelFamily -> WordKernelOK(ev)
    [] ev.op \in AlgFamily -> AlgOK(ev)
    [] ev.op \in MoveFamily -> MoveOK(ev)
    [] ev.op \in RowOpsFamily -> RowOpsOK(ev)
    [] ev.op \in ObsFamily -> ObsOK(ev)
    [] OTHER -> TRUE

Known(ev) == ev.op \in MulFamily \cup MoveFamily \cup RowOpsFamily \cup ObsFamily \cup AlgFamily \cup WordKernelFamily \cup IOFamily

-----------------------------------------------------------------------------
(* Conformance of the implementation-shaped models (spec/alg) to the code.                     *)
(* Where a routine's outcome is only constrained relationally by its property (which pivot     *)
(* rows, which echelon form), the implementation-shaped model still predicts the exact outcome *)
(* of the code as written: for explicit table parameters the model is evaluated at the code's  *)
(* constants (word size 64, 7 PLE tables, 6 elimination tables, split constant 8) on the       *)
(* recorded operand and compared bit for bit with the recorded outcome.  A mismatch is NOT a   *)
(* violation of the property (the relational predicate above judges that) - it is reported as  *)
(* "drift_...": the code no longer is the algorithm that the bounded model checks (MC_PLERec,  *)
(* MC_PLERussian, MC_Echelon) verified, so those results do not transfer to this tree.         *)
PRu(k) == INSTANCE PLERussian WITH WB <- 64, K <- k, NT <- 7, SB <- 8
\* the build constants of the traced library (logged by the harness as the first line of every trace)
CfgIdx == {i \in 1 .. N : Tr[i].e = "cfg" /\ {"l2", "l3", "ple_cutoff", "mul_blocksize"} \subseteq DOMAIN Tr[i]}
Cfg == Tr[CHOOSE i \in CfgIdx : TRUE]
RECURSIVE Log2Floor(_)
Log2Floor(v) == IF v <= 1 THEN 0 ELSE 1 + Log2Floor(v \div 2)
\* the table parameter _mzd_ple_russian chooses for k = 0
AutoK(m, n) ==
  LET width == (n + 63) \div 64
      x == (Cfg.l2 \div 8) \div (width * 7)        \* floor of the real quotient: same floor(log2) for values >= 1
      k0 == Log2Floor(x)
      klog == (3 * Log2Floor(Min({m, n})) + 2) \div 4
      k1 == IF klog < k0 THEN klog ELSE k0
  IN IF k1 < 2 THEN 2 ELSE IF k1 > 8 THEN 8 ELSE k1
RussianOf(A, k) == PRu(IF k = 0 THEN AutoK(A.m, A.n) ELSE k)!PleRussian(A)
RussianAuto(A) == RussianOf(A, 0)
PRn == INSTANCE PLERec WITH WB <- 64, CUTW <- Cfg.ple_cutoff, BLOCKT <- Cfg.mul_blocksize, PIVRULE <- "first", BaseCase <- RussianAuto
ECH == INSTANCE Echelon WITH KM <- 6
\* the table parameter _mzd_echelonize_m4ri / _mzd_top_echelonize_m4ri choose for k = 0 (m4ri_opt_k, cap 7, cache adjustment)
RECURSIVE Pow2(_)
Pow2(k) == IF k = 0 THEN 1 ELSE 2 * Pow2(k - 1)
AutoKE(m, n) ==
  LET o == (3 * (1 + Log2Floor(Min({m, n})))) \div 4
      k0 == IF o < 1 THEN 1 ELSE IF o > 16 THEN 16 ELSE o
      k1 == IF k0 >= 7 THEN 7 ELSE k0
  IN IF k1 > 1 /\ 3 * Pow2(k1) * n > 2 * Cfg.l3 THEN k1 - 1 ELSE k1
\* _mzd_density(A, 32, r, c) >= thr / 1000 (the comparison of the two quotients is exact in integers: they differ by far
\* more than the rounding of a double unless they are equal)
CountFrom(R, lo, hi, c0, c1) == FoldSet(LAMBDA i, acc : acc + Cardinality({x \in R[i] : x >= c0 /\ x < c1}), 0, lo .. hi)
DensityGE(R, m, n, r, c, thr) ==
  LET width == (n + 63) \div 64 IN
  IF width = 1 THEN CountFrom(R, r, m - 1, c, n) * 1000 >= thr * (n * m)
  ELSE LET first == IF c < 64 THEN CountFrom(R, r, m - 1, c, 64) ELSE 0
           j0 == IF c \div 64 > 1 THEN c \div 64 ELSE 1
           words == {j \in j0 .. width - 2 : (j - j0) = 32 * ((j - j0) \div 32)}
           mid == FoldSet(LAMBDA j, acc : acc + CountFrom(R, r, m - 1, 64 * j, 64 * j + 64), 0, words)
           lastw == CountFrom(R, r, m - 1, 64 * (n \div 64), n)
           total == (m - r) * (64 + 64 * Cardinality(words) + (n - 64 * (n \div 64)))
       IN (first + mid + lastw) * 1000 >= thr * total
EH == INSTANCE EchelonHybrid WITH WB <- 64, CUTW <- Cfg.ple_cutoff, BLOCKT <- Cfg.mul_blocksize, PIVRULE <- "first", BaseCase <- RussianAuto,
                                  KM <- 6, GAP <- 256, IsDense <- DensityGE, TopK <- AutoKE
SV == INSTANCE Solve WITH OLDPAD <- FALSE
FactOf(R) == [LU |-> R.A, P |-> R.P, Q |-> R.Q, r |-> R.r]
ConfSmall(o) == o.m * o.n <= 100 * 100 \/ (Cfg.l3 <= 4096 /\ o.m * o.n <= 350 * 270)
SamePLE(R, ev) == R.r = ev.ret /\ R.P = ev.p.P /\ R.Q = ev.p.Q /\ Eq(R.A, Post(O(ev, 1)))
ModelDrift(ev) ==
  LET op == ev.op  p == ev.p IN
  IF CfgIdx = {} \/ ev.die = 1 \/ ~(op \in PleFamily \cup {"echelonize_m4ri", "_echelonize_m4ri", "echelonize", "top_echelonize_m4ri", "echelonize_pluq", "find_pivot", "solve_left", "_solve_left", "kernel_left_pluq"}) \/ ~ConfSmall(O(ev, 1)) THEN {}
  ELSE LET A == Pre(O(ev, 1)) IN
    CASE op = "_ple_russian" -> LET R == RussianOf(A, p.k) IN IF R.ok /\ SamePLE(R, ev) THEN {} ELSE {"drift_ple_russian"}
      [] op = "_pluq_russian" -> LET R == RussianOf(A, p.k) IN
                                 IF R.ok /\ SamePLE([R EXCEPT !.A = ApplyPRightTransTriSem(R.A, R.Q)], ev) THEN {} ELSE {"drift_ple_russian"}
      [] op = "_ple_naive" -> IF SamePLE(PRn!Base(A), ev) THEN {} ELSE {"drift_ple_naive"}
      [] op = "_pluq_naive" -> IF SamePLE(PRn!PluqNaive(A), ev) THEN {} ELSE {"drift_pluq_naive"}
      [] op \in {"ple", "_ple"} -> IF SamePLE(PRn!Ple(A), ev) THEN {} ELSE {"drift_ple_recursive"}
      [] op \in {"pluq", "_pluq"} -> IF SamePLE(PRn!Pluq(A), ev) THEN {} ELSE {"drift_ple_recursive"}
      [] op \in {"solve_left", "_solve_left"} ->
           IF ev.ret # 0 \/ p.check = 0 THEN {}
           ELSE LET F == FactOf(PRn!Pluq(A))  S == SV!PluqSolveLeft(F, A.m, A.n, Pre(O(ev, 2))) IN
                IF S.ret = 0 /\ Eq(S.B, Post(O(ev, 2))) /\ Eq(F.LU, Post(O(ev, 1))) THEN {} ELSE {"drift_solve"}
      [] op = "kernel_left_pluq" ->
           LET F == FactOf(PRn!Pluq(A))  Kk == SV!KernelFrom(F, A.n) IN
           IF Kk.has = HasR(ev) /\ (Kk.has => Eq(Kk.K, Post(ev.o[Len(ev.o)]))) /\ Eq(F.LU, Post(O(ev, 1))) THEN {} ELSE {"drift_kernel"}
      [] op = "echelonize_pluq" ->       \* without full reduction: the echelon rows of the library's own PLE, multipliers cleared
           IF p.full = 1 THEN {}
           ELSE LET R == PRn!Ple(A)
                    want == Mat(A.m, A.n, [i \in Rows(A) |-> IF i < R.r THEN {c \in R.A.r[i] : c > i} \cup {R.Q[i + 1]} ELSE {}])
                IN IF R.r = ev.ret /\ Eq(want, Post(O(ev, 1))) THEN {} ELSE {"drift_echelonize_pluq"}
      [] op = "find_pivot" ->            \* the first row that holds a one in the left-most non-zero column
           LET f == ECH!FindPivot(A.r, A.m, p.sr, p.sc) IN
           IF (f.found <=> ev.ret = 1) /\ (f.found => f.r = p.r /\ f.c = p.c) THEN {} ELSE {"drift_find_pivot"}
      [] op = "top_echelonize_m4ri" ->
           IF p.k < 1 THEN {}
           ELSE IF Eq(ECH!TopEchelonM4RI(A, p.k).A, Post(O(ev, 1))) THEN {} ELSE {"drift_top_echelonize"}
      [] op = "echelonize_m4ri" ->
           LET k == IF p.k = 0 THEN AutoKE(A.m, A.n) ELSE p.k IN
           IF k < 1 THEN {}
           ELSE LET R == ECH!EchelonM4RI(A, p.full = 1, k) IN
                IF R.rank = ev.ret /\ Eq(R.A, Post(O(ev, 1))) THEN {} ELSE {"drift_echelonize_m4ri"}
      \* the density-switching elimination: mzd_echelonize (automatic k, cross-over density 0.15) and the internal entry
      \* point with an explicit k, switch and threshold (logged in thousandths)
      [] op \in {"echelonize", "_echelonize_m4ri"} ->
           LET k == IF op = "echelonize" \/ p.k = 0 THEN AutoKE(A.m, A.n) ELSE p.k
               heur == op = "echelonize" \/ p.heur = 1
               thr == IF op = "echelonize" THEN 150 ELSE p.thr IN
           IF k < 1 THEN {}
           ELSE LET R == IF heur THEN EH!EchelonHybrid(A, p.full = 1, k, thr) ELSE ECH!EchelonM4RI(A, p.full = 1, k) IN
                IF R.rank = ev.ret /\ Eq(R.A, Post(O(ev, 1))) THEN {} ELSE {"drift_echelonize_hybrid"}

\* C11: a checked wrapper called with incompatible dimensions must end in the error handler (die = 1)
\* with every operand untouched
ExpectDie(ev) == ev.op = "baddims"
Checks(ev) ==
  IF ExpectDie(ev)
  THEN (IF ev.die = 1 THEN {} ELSE {"no_die_on_bad_dimensions"}) \cup (IF DieClean(ev) /\ FrameOK(ev) /\ \A o \in Opnds(ev) : o.pre = o.post THEN {} ELSE {"die_touched"})
  ELSE IF ev.die = 1
  THEN (IF DieClean(ev) THEN {} ELSE {"die_touched"}) \cup {"unexpected_die"}
  ELSE (IF FrameOK(ev) THEN {} ELSE {"frame"})
       \cup (IF PadOK(ev) THEN {} ELSE {"padding"})
       \cup (IF NoStray(ev) THEN {} ELSE {"stray"})
       \cup (IF ev.leak = 0 THEN {} ELSE {"leak"})
       \cup (IF ~Known(ev) THEN {"unknown_op"} ELSE IF ResultOK(ev) THEN {} ELSE {"result"})
       \cup ModelDrift(ev)

-----------------------------------------------------------------------------
Init == l = 1 /\ nops = 0 /\ nbad = 0

Step ==
  /\ l <= N
  /\ l' = l + 1
  /\ IF Tr[l].e = "op"
     THEN LET f == Checks(Tr[l]) IN
          /\ nops' = nops + 1
          /\ IF f = {} THEN nbad' = nbad
             ELSE /\ PrintT(<<"VFAIL", l, Tr[l].op, f>>)
                  /\ nbad' = nbad + 1
     ELSE IF Tr[l].e = "crash"
     THEN /\ PrintT(<<"VCRASH", l, Tr[l].sig, Tr[l].code>>)
          /\ nops' = nops /\ nbad' = nbad + 1
     ELSE UNCHANGED <<nops, nbad>>

Done ==
  /\ l = N + 1
  /\ PrintT(<<"VDONE", N, nops, nbad>>)
  /\ l' = N + 2
  /\ UNCHANGED <<nops, nbad>>

Next == Step \/ Done
Spec == Init /\ [][Next]_vars
=============================================================================
