----------------------------- MODULE TraceFault -----------------------------
(***************************************************************************)
(* Validates the fault-injection campaign (family "fault") against          *)
(* spec/AllocFault.tla: for every scenario the fault-free run must return,  *)
(* every position i = 1..n must have been injected exactly once, and the    *)
(* observed fate of each run must be the one behaviour the specification    *)
(* allows (controlled abort).                                               *)
(***************************************************************************)
EXTENDS Naturals, Integers, FiniteSets, Sequences, TLC, Json, IOUtils

Tr == ndJsonDeserialize(IOEnv.TRACE)
N == Len(Tr)
F == INSTANCE AllocFault WITH N <- 0, pc <- "run", k <- 0, failed <- 0

VARIABLES l, seen, nops, nbad
vars == <<l, seen, nops, nbad>>
Init == l = 1 /\ seen = {} /\ nops = 0 /\ nbad = 0

Step ==
  /\ l <= N /\ l' = l + 1
  /\ LET ev == Tr[l] IN
     IF ev.e = "fscn"
     THEN /\ seen' = {} /\ nops' = nops + 1
          /\ IF F!FateAllowed(0, ev.clean) THEN nbad' = nbad
             ELSE PrintT(<<"VFAIL", l, ev.scn, {"fault_free_run_failed"}>>) /\ nbad' = nbad + 1
     ELSE IF ev.e = "fault"
     THEN /\ seen' = seen \cup {ev.i} /\ nops' = nops + 1
          /\ IF F!FateAllowed(ev.i, ev.fate) /\ ev.i \notin seen THEN nbad' = nbad
             ELSE PrintT(<<"VFAIL", l, ev.scn, {"not_controlled_abort"}>>) /\ nbad' = nbad + 1
     ELSE IF ev.e = "fend"
     THEN /\ seen' = {} /\ nops' = nops
          /\ IF seen = 1 .. ev.n THEN nbad' = nbad
             ELSE PrintT(<<"VFAIL", l, ev.scn, {"positions_not_all_injected"}>>) /\ nbad' = nbad + 1
     ELSE UNCHANGED <<seen, nops, nbad>>
Done == l = N + 1 /\ PrintT(<<"VDONE", N, nops, nbad>>) /\ l' = N + 2 /\ UNCHANGED <<seen, nops, nbad>>
Next == Step \/ Done
Spec == Init /\ [][Next]_vars
=============================================================================
