----------------------------- MODULE TraceAlloc -----------------------------
(***************************************************************************)
(* Validates allocation histories recorded from the real allocator (family  *)
(* "alloc") against spec/Alloc.tla.  State: position l and the allocator    *)
(* state st of the specification.  For every logged operation the           *)
(* specification's action is taken with the logged arguments; the event is  *)
(* rejected unless (1) the sequence of heap calls the real code made equals *)
(* the action's obs (kinds always, sizes for matrix storage), (2) the C14   *)
(* observables logged by the harness hold (fresh storage zero although      *)
(* recycled blocks are poisoned, disjoint from every live matrix, canaries  *)
(* of all live matrices intact, no free of a non-live pointer), and (3) the *)
(* specification's invariants hold in the new state.  After a rejection the *)
(* walk continues from the specification's state (report and go on).        *)
(* (1) and (3) and "model_retained" are CONFORMANCE of the code to the      *)
(* model (cache policy); the property C14 itself is (2) and                 *)
(* "memory_retained".  The orchestrator reports the former as model drift,  *)
(* never as a violation of C14 (a different but sound cache policy is not a *)
(* defect).                                                                 *)
(***************************************************************************)
EXTENDS Naturals, Integers, FiniteSets, Sequences, TLC, Json, IOUtils, SequencesExt

Tr == ndJsonDeserialize(IOEnv.TRACE)
N == Len(Tr)
Cfg == Tr[CHOOSE i \in 1 .. N : Tr[i].e = "acfg"]

A == INSTANCE Alloc WITH NSLOTS <- Cfg.nslots, THRESH <- Cfg.thresh, HB <- Cfg.hb, MAXB <- Cfg.maxb,
                         HSIZE <- 64, BSIZE <- 4160, CACHES <- (Cfg.caches = 1),
                         Handles <- 0 .. Cfg.maxh - 1, MaxIds <- 2 * Cfg.maxh + Cfg.nslots + Cfg.maxb + 8

VARIABLES l, st, nops, nbad
vars == <<l, st, nops, nbad>>

ObsMatch(logged, model) ==
  /\ Len(logged) = Len(model)
  /\ \A i \in 1 .. Len(model) :
        /\ logged[i][1] = model[i][1]
        /\ (model[i][2] = "data" => logged[i][2] = model[i][3])

Result(ev) ==
  CASE ev.op = "init" -> A!DoInit(st, ev.h, ev.size)
    [] ev.op = "win" -> A!DoWindow(st, ev.h, ev.p)
    [] ev.op = "free" -> A!DoFree(st, ev.h)
    [] ev.op = "cleanup" -> A!DoCleanup(st)

Pre(ev) ==
  CASE ev.op = "init" -> st.objs[ev.h].kind = "none"
    [] ev.op = "win" -> st.objs[ev.h].kind = "none" /\ st.objs[ev.p].kind = "owner"
    [] ev.op = "free" -> st.objs[ev.h].kind # "none"
    [] ev.op = "cleanup" -> TRUE

Fails(ev, R) ==
  (IF ObsMatch(ev.obs, R.obs) THEN {} ELSE {"heap_calls"})
  \cup (IF ev.zero = 1 THEN {} ELSE {"fresh_not_zero_or_live_corrupted"})
  \cup (IF ev.disj = 1 THEN {} ELSE {"storage_shared"})
  \cup (IF ev.canary = 1 THEN {} ELSE {"live_matrix_corrupted"})
  \cup (IF ev.badfree = 0 THEN {} ELSE {"free_of_non_live_pointer"})
  \cup (IF A!AllocInv(R.st) THEN {} ELSE {"spec_invariant"})

Init == l = 1 /\ st = A!InitSt /\ nops = 0 /\ nbad = 0

Step ==
  /\ l <= N
  /\ l' = l + 1
  /\ LET ev == Tr[l] IN
     IF ev.e = "aop"
     THEN IF ~Pre(ev)
          THEN /\ PrintT(<<"VFAIL", l, ev.op, {"harness_precondition"}>>)
               /\ nbad' = nbad + 1 /\ nops' = nops + 1 /\ st' = st
          ELSE LET R == Result(ev)  f == Fails(ev, R) IN
               /\ st' = R.st
               /\ nops' = nops + 1
               /\ IF f = {} THEN nbad' = nbad
                  ELSE PrintT(<<"VFAIL", l, ev.op, f>>) /\ nbad' = nbad + 1
     ELSE IF ev.e = "areset"
     THEN st' = A!InitSt /\ UNCHANGED <<nops, nbad>>
     ELSE IF ev.e = "aend"
     THEN /\ st' = st /\ nops' = nops + 1
          /\ LET f == (IF ev.live = 0 THEN {} ELSE {"memory_retained"})                       \* observed: heap blocks still live
                      \cup (IF A!NothingRetained(st) /\ A!Live(st) = {} /\ DOMAIN st.heap = {}
                            THEN {} ELSE {"model_retained"})                                  \* the model's own heap (conformance)
             IN IF f = {} THEN nbad' = nbad
                ELSE PrintT(<<"VFAIL", l, "end", f>>) /\ nbad' = nbad + 1
     ELSE IF ev.e = "crash"
     THEN PrintT(<<"VCRASH", l, ev.sig, ev.code>>) /\ nbad' = nbad + 1 /\ UNCHANGED <<st, nops>>
     ELSE UNCHANGED <<st, nops, nbad>>

Done == l = N + 1 /\ PrintT(<<"VDONE", N, nops, nbad>>) /\ l' = N + 2 /\ UNCHANGED <<st, nops, nbad>>
Next == Step \/ Done
Spec == Init /\ [][Next]_vars
=============================================================================
