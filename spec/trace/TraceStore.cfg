SPECIFICATION Spec
CONSTANTS
  Handles = {1, 2, 3, 4, 5, 6}
  RowDims = {1}
  ColDims = {1}
  Seeds = {0}
  ABSTRACT = FALSE
CHECK_DEADLOCK FALSE
