-------------------------------- MODULE JCF --------------------------------
(***************************************************************************)
(* Token-level specification of the JCF reader (mzd_from_jcf) and of the    *)
(* string constructor (C18).  A file is a sequence of integer tokens        *)
(*   m n p nonzero  j1 j2 ...                                               *)
(* a negative token -c starts the next row and denotes column c, a positive *)
(* token c denotes column c of the current row (columns are 1-based).       *)
(* gpos > 0 says that token number gpos is not a number at all (garbage):   *)
(* reading stops there.                                                     *)
(* Outcome: [k |-> "matrix", M |-> matrix]  or  [k |-> "reject"]  or        *)
(* [k |-> "either", M |-> matrix of the readable prefix]: the file is        *)
(* truncated/garbled but every index that could be read was in range; the   *)
(* property allows rejecting it or returning what was read, never a fault.  *)
(***************************************************************************)
EXTENDS GF2

RECURSIVE Body(_, _, _, _, _, _)
\* toks: body tokens still to read, i: current row (-1 before the first row), R: rows so far
Body(toks, m, n, i, R, cut) ==
  IF toks = << >> THEN [k |-> IF cut THEN "either" ELSE "matrix", M |-> Mat(m, n, R)]
  ELSE LET j == Head(toks)
           i2 == IF j < 0 THEN i + 1 ELSE i
           c == IF j < 0 THEN -j ELSE j
       IN IF j = 0 \/ i2 < 0 \/ i2 >= m \/ c > n THEN [k |-> "reject"]
          ELSE Body(Tail(toks), m, n, i2, [R EXCEPT ![i2] = R[i2] \cup {c - 1}], cut)

Parse(toks, gpos) ==
  LET readable == IF gpos = 0 THEN toks ELSE SubSeq(toks, 1, gpos - 1) IN
  IF Len(readable) < 4 THEN [k |-> "reject"]                       \* missing header fields
  ELSE LET m == readable[1]  n == readable[2]  p == readable[3] IN
       IF p # 2 \/ m < 0 \/ n < 0 THEN [k |-> "reject"]            \* wrong modulus, negative dimensions
       ELSE Body(SubSeq(readable, 5, Len(readable)), m, n, -1, [r \in 0 .. m - 1 |-> {}], gpos # 0)

\* mzd_from_str(m, n, s): entry (i,j) is one iff character i*n+j of s is '1'
FromStr(m, n, s) == Mat(m, n, [i \in 0 .. m - 1 |-> {j \in 0 .. n - 1 : s[i * n + j + 1] = "1"}])

\* the valid file denoting M (rows in order, columns ascending)
RECURSIVE RowToks(_, _)
RowToks(cols, first) ==
  IF cols = {} THEN << >>
  ELSE LET c == SetMin(cols) IN << IF first THEN -(c + 1) ELSE c + 1 >> \o RowToks(cols \ {c}, FALSE)
RECURSIVE FileOf(_, _)
FileOf(M, i) == IF i >= M.m THEN << >>
                ELSE (IF M.r[i] = {} THEN << >> ELSE RowToks(M.r[i], TRUE)) \o FileOf(M, i + 1)
\* (an empty row cannot be expressed in the format unless it is at the end: generators use matrices
\*  whose non-empty rows come first)
ValidFile(M) == << M.m, M.n, 2, FoldSet(LAMBDA i, a : a + Cardinality(M.r[i]), 0, Rows(M)) >> \o FileOf(M, 0)
=============================================================================
