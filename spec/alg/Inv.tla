-------------------------------- MODULE Inv --------------------------------
(***************************************************************************)
(* Implementation-shaped models of the inversion routines (C05), composed   *)
(* from the model of the M4RI elimination (alg/Echelon.tla):                *)
(*   mzd_inv_m4ri: an n x 2*nr work matrix with nr = the width of A rounded *)
(*   up to whole words; A is copied to the columns 0 .. n-1, the identity   *)
(*   to the columns nr .. nr+n-1 (the columns n .. nr-1 and nr+n .. 2nr-1   *)
(*   stay zero), the whole is reduced with the M4RI elimination (full       *)
(*   reduction) and the block at column nr is the result;                   *)
(*   mzd_invert_naive: the same with [A | I] without padding and the        *)
(*   reduced row echelon form of the specification.                         *)
(* MC_Inv checks for all invertible matrices within its bounds that both    *)
(* return the inverse; for singular input mzd_inv_m4ri's result is whatever *)
(* the elimination leaves (no promise, C05 quantifies over invertible A).   *)
(***************************************************************************)
EXTENDS Echelon

InvM4RI(A, wb, k) ==
  LET n == A.m
      nr == wb * ((A.n + wb - 1) \div wb)
      C == Embed(Embed(Zero(n, 2 * nr), 0, 0, A), 0, nr, Id(n))
  IN Sub(EchelonM4RI(C, TRUE, k).A, 0, nr, n, n)

InvertNaive(A) == LET n == A.m IN Sub(RREF(Concat(A, Id(n))), 0, n, n, n)
=============================================================================
