---------------------------- MODULE EchelonPluq ----------------------------
(***************************************************************************)
(* Implementation-shaped model of mzd_echelonize_pluq (m4ri/echelonform.c,  *)
(* C02), composed from the models of its parts: the block-recursive         *)
(* PLE / PLUQ driver (alg/PLERec.tla) and the recursive triangular solve    *)
(* (alg/TRSM.tla).                                                          *)
(*   full: PLUQ; the r x r window U (which still holds the multipliers of L *)
(*   below its diagonal) is used to solve U X = B for the columns to its     *)
(*   right.  When r is not a multiple of the word size the right-hand side  *)
(*   starts inside the word that also holds the last columns of U, so the   *)
(*   code extracts a COPY of that word's columns rr .. rr+WB (or rr .. n if  *)
(*   that is all there is), solves in the copy and in the window further    *)
(*   right, and copies the word back - overwriting the columns rr .. r-1 of *)
(*   U with meaningless values - before U is set to the identity; then Q is *)
(*   applied to the first r rows and the rows from r on are cleared.        *)
(*   not full: PLE; in row i < r the entries up to column i are cleared and *)
(*   the pivot (i, Q[i]) is set; rows from r on are cleared.                *)
(* MC_EchelonPluq checks for all matrices within its bounds that the full   *)
(* branch yields rank and the unique RREF and the other branch a row        *)
(* echelon form of the same row space (Ops!EchelonOK, the predicate that    *)
(* judges the real code).                                                   *)
(***************************************************************************)
EXTENDS PLERec

ZeroFrom(A, r) == Mat(A.m, A.n, [i \in Rows(A) |-> IF i >= r THEN {} ELSE A.r[i]])

EchelonPluqFull(A) ==
  LET F == Pluq(A)  r == F.r  n == A.n
      rr == WB * (r \div WB)
      U == Sub(F.A, 0, 0, r, r)
      A1 == IF r = 0 \/ r = n THEN F.A
            ELSE IF rr = r THEN Embed(F.A, 0, r, TR!UpperLeft(U, Sub(F.A, 0, r, r, n - r)))
            ELSE IF n > rr + WB
                 THEN LET X0 == TR!UpperLeft(U, Sub(F.A, 0, rr, r, WB))                      \* the copy B0
                          X1 == TR!UpperLeft(U, Sub(F.A, 0, rr + WB, r, n - rr - WB))        \* the window B1
                      IN Embed(Embed(F.A, 0, rr + WB, X1), 0, rr, X0)
                 ELSE Embed(F.A, 0, rr, TR!UpperLeft(U, Sub(F.A, 0, rr, r, n - rr)))
      A2 == IF r = 0 THEN A1 ELSE Embed(A1, 0, 0, Id(r))                                    \* mzd_set_ui(U, 1)
      A3 == IF r = 0 THEN ApplyPRight(A2, F.Q) ELSE Embed(A2, 0, 0, ApplyPRight(Sub(A2, 0, 0, r, n), F.Q))
  IN [A |-> ZeroFrom(A3, r), rank |-> r]

EchelonPluqNF(A) ==
  LET F == Ple(A)  r == F.r
      A1 == Mat(A.m, A.n, [i \in Rows(A) |-> IF i < r THEN {c \in F.A.r[i] : c > i} \cup {F.Q[i + 1]} ELSE F.A.r[i]])
  IN [A |-> ZeroFrom(A1, r), rank |-> r]
=============================================================================
