------------------------------ MODULE PLERec ------------------------------
(***************************************************************************)
(* Implementation-shaped model of the block-recursive PLE / PLUQ driver     *)
(* (_mzd_ple, _mzd_pluq in m4ri/ple.c, _mzd_compress_l in m4ri/mzp.c; C03): *)
(*   - truncation to the rows above mzd_first_zero_row, identity P beyond,  *)
(*   - the base-case test (ncols <= radix or width*nrows <= PLE_CUTOFF),    *)
(*   - the word-aligned column split n1, the first recursive call on A0,    *)
(*   - the Schur complement (P1 applied to A1, TRSM with the unit lower     *)
(*     triangle of A00 - through the recursion of alg/TRSM.tla -, A11 +=    *)
(*     A10*A01), skipped when r1 = 0,                                       *)
(*   - the second recursive call on A11 with the windows P2, Q2 of P and Q, *)
(*   - P2 applied to A10, the index shifts of P2 and Q2, the move of the    *)
(*     second batch of pivot columns Q[r1..r1+r2) := Q[n1..n1+r2),          *)
(*   - the compression of L (column swaps inside the rows r1..r1+r2, the    *)
(*     shift of L2 from column n1 to column r1 in the rows below, clearing  *)
(*     up to the end of the word that holds column n1+r2-1),                *)
(*   - for PLUQ the triangular transposed application of Q to the first r   *)
(*     rows.                                                                *)
(* The base case is a deterministic strategy of the pivoting machine of     *)
(* alg/PLE.tla (the left-most column, then the FIRST or the LAST candidate  *)
(* row - constant PIVRULE - , multipliers kept in the pivot column and      *)
(* moved to the diagonal position afterwards, as _mzd_ple_naive does); the  *)
(* real base case (_mzd_ple_russian) is another strategy of that machine,   *)
(* see alg/PLERussian.tla.                                                  *)
(* MC_PLERec checks for ALL matrices within its bounds that the outcome     *)
(* satisfies Ops!PLEOK - the predicate that judges the real code.           *)
(***************************************************************************)
EXTENDS Ops

CONSTANTS WB,       \* word size (m4ri_radix)
          CUTW,     \* __M4RI_PLE_CUTOFF in words
          BLOCKT,   \* block size of the triangular solve (alg/TRSM.tla)
          PIVRULE,  \* "first" | "last": the naive base case's choice of the pivot row
          BaseCase(_) \* the base case: a matrix |-> [A, P, Q, r] (MC_PLERec: NaiveBase; trace validation: PLERussian with the automatic k)

TR == INSTANCE TRSM WITH WB <- WB, BLOCK <- BLOCKT

IdSeq(k) == [i \in 1 .. k |-> i - 1]
WidthOf(n) == (n + WB - 1) \div WB
SplitCol(n) == ((((n - 1) \div WB) + 1) \div 2) * WB

\* ---- base case -------------------------------------------------------------------------
RECURSIVE BaseLoop(_, _, _, _, _, _, _)
BaseLoop(S, m, n, P, Q, r, c) ==
  LET cands == UNION {{x \in S[i] : x >= c} : i \in r .. m - 1} IN
  IF r >= m \/ cands = {} THEN [S |-> S, P |-> P, Q |-> Q, r |-> r]
  ELSE LET j == SetMin(cands)
           rows == {i \in r .. m - 1 : j \in S[i]}
           i == IF PIVRULE = "first" THEN SetMin(rows) ELSE SetMax(rows)
           S0 == SwapF(S, r, i)
           \* mzd_row_add_offset(A, l, row_pos, j + 1): the multiplier stays in column j of row l
           S1 == TLCEval([l \in 0 .. m - 1 |-> IF l > r /\ j \in S0[l] THEN Xor(S0[l], {x \in S0[r] : x > j}) ELSE S0[l]])
       IN BaseLoop(S1, m, n, [P EXCEPT ![r + 1] = i], [Q EXCEPT ![r + 1] = j], r + 1, j + 1)
\* "compressing L": for j < r with Q[j] > j swap the columns Q[j] and j in the rows j .. m-1
RECURSIVE BaseCompress(_, _, _, _)
BaseCompress(A, Q, r, j) ==
  IF j >= r THEN A
  ELSE BaseCompress(IF Q[j + 1] > j THEN ColSwapRows(A, Q[j + 1], j, j, A.m) ELSE A, Q, r, j + 1)
Base(A) ==
  LET b == BaseLoop(A.r, A.m, A.n, IdSeq(A.m), IdSeq(A.n), 0, 0)
  IN [A |-> BaseCompress(Mat(A.m, A.n, b.S), b.Q, b.r, 0), P |-> b.P, Q |-> b.Q, r |-> b.r]

\* ---- _mzd_pluq_naive: pivot search from (curr, curr), row and full column swap, elimination from curr+1 on ---------
RECURSIVE PluqNaiveLoop(_, _, _, _)
PluqNaiveLoop(A, P, Q, cp) ==
  LET cands == UNION {{x \in A.r[i] : x >= cp} : i \in cp .. A.m - 1} IN
  IF cp >= A.n \/ cp >= A.m \/ cands = {} THEN [A |-> A, P |-> P, Q |-> Q, r |-> cp]
  ELSE LET j == SetMin(cands)
           i == SetMin({x \in cp .. A.m - 1 : j \in A.r[x]})
           A1 == ColSwap(RowSwap(A, cp, i), cp, j)
           A2 == Mat(A.m, A.n, [l \in Rows(A) |-> IF l > cp /\ cp \in A1.r[l] THEN Xor(A1.r[l], {x \in A1.r[cp] : x > cp}) ELSE A1.r[l]])
       IN PluqNaiveLoop(A2, [P EXCEPT ![cp + 1] = i], [Q EXCEPT ![cp + 1] = j], cp + 1)
PluqNaive(A) == PluqNaiveLoop(A, IdSeq(A.m), IdSeq(A.n), 0)

\* ---- _mzd_compress_l(A, r1, n1, r2) at the level of matrix values -------------------------
RECURSIVE SwapCols(_, _, _, _, _)
SwapCols(A, i, j, r1, r2) ==
  IF i >= r1 + r2 THEN A ELSE SwapCols(ColSwapRows(A, i, j, i, r1 + r2), i + 1, j + 1, r1, r2)
CompressL(A, r1, n1, r2) ==
  IF r1 = n1 THEN A
  ELSE LET A1 == SwapCols(A, r1, n1, r1, r2)
           stop == Min({A.n, ((n1 + r2 + WB - 1) \div WB) * WB})
       IN Mat(A.m, A.n, [i \in Rows(A) |->
             IF i < r1 + r2 THEN A1.r[i]
             ELSE {c \in A1.r[i] : c < r1} \cup {c - n1 + r1 : c \in {x \in A1.r[i] : x >= n1 /\ x < n1 + r2}}
                  \cup {c \in A1.r[i] : c >= stop}])

\* ---- _mzd_ple ------------------------------------------------------------------------------
RECURSIVE Ple(_)
Ple(A) ==
  LET m == A.m  n == A.n  nr == FirstZeroRowSem(A) IN
  IF nr = 0 THEN [A |-> A, P |-> IdSeq(m), Q |-> IdSeq(n), r |-> 0]
  ELSE IF n <= WB \/ WidthOf(n) * m <= CUTW THEN BaseCase(A)
  ELSE
    LET n1 == SplitCol(n)
        R1 == Ple(Sub(A, 0, 0, nr, n1))
        r1 == R1.r
        Aa == Embed(A, 0, 0, R1.A)
        \* Schur complement (only if r1 > 0)
        X01 == TR!LowerLeft(Sub(Aa, 0, 0, r1, r1), Sub(ApplyPLeft(Sub(Aa, 0, n1, nr, n - n1), R1.P), 0, 0, r1, n - n1))
        Ab == IF r1 = 0 THEN Aa
              ELSE LET A1p == ApplyPLeft(Sub(Aa, 0, n1, nr, n - n1), R1.P)
                       B1 == Embed(Aa, 0, n1, A1p)
                       B2 == Embed(B1, 0, n1, X01)
                       A11 == Add(Sub(B2, r1, n1, nr - r1, n - n1), Mul(Sub(B2, r1, 0, nr - r1, r1), X01))
                   IN Embed(B2, r1, n1, A11)
        R2 == Ple(Sub(Ab, r1, n1, nr - r1, n - n1))
        r2 == R2.r
        Ac == Embed(Ab, r1, n1, R2.A)
        Ad == Embed(Ac, r1, 0, ApplyPLeft(Sub(Ac, r1, 0, nr - r1, r1), R2.P))      \* mzd_apply_p_left(A10, P2)
        P == TLCEval([i \in 1 .. m |-> IF i <= r1 THEN R1.P[i] ELSE IF i <= nr THEN R2.P[i - r1] + r1 ELSE i - 1])
        Qa == [i \in 1 .. n |-> IF i <= n1 THEN R1.Q[i] ELSE R2.Q[i - n1] + n1]
        Q == TLCEval([i \in 1 .. n |-> IF i > r1 /\ i <= r1 + r2 THEN Qa[n1 + (i - r1)] ELSE Qa[i]])
    IN [A |-> CompressL(Ad, r1, n1, r2), P |-> P, Q |-> Q, r |-> r1 + r2]

\* ---- _mzd_pluq ---------------------------------------------------------------------------------
Pluq(A) ==
  LET R == Ple(A) IN
  IF R.r > 0 /\ R.r < A.m
  THEN [R EXCEPT !.A = Embed(R.A, 0, 0, ApplyPRightTransTriSem(Sub(R.A, 0, 0, R.r, A.n), R.Q))]
  ELSE [R EXCEPT !.A = ApplyPRightTransTriSem(R.A, R.Q)]
=============================================================================
