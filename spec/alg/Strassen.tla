------------------------------ MODULE Strassen ------------------------------
(***************************************************************************)
(* Implementation-shaped model of m4ri/strassen.c (C01): the base-case test, *)
(* the word-aligned split (closer, the mult/width loop, mmm/kkk/nnn), the    *)
(* Bodrato sequences of _mzd_mul_even, _mzd_sqr_even, _mzd_addmul_even and   *)
(* _mzd_addsqr_even with their temporaries step by step, and the three       *)
(* remainder strips.  One level of the recursion is modelled; the recursive  *)
(* products are replaced by the specification's product (GF2!Mul), so that   *)
(* correctness of every depth follows by induction on the dimensions.        *)
(* WB is the word size (m4ri_radix; 2 in the bounded check, 64 in the code). *)
(***************************************************************************)
EXTENDS GF2

CONSTANT WB

Closer(a, cutoff) == 3 * a < 4 * cutoff \/ a < 2 * WB          \* (as repaired by fix 1fb56b8)
CloserOld(a, cutoff) == 3 * a < 4 * cutoff                      \* the pinned tree's test (finding F01)

RECURSIVE MultLoop(_, _, _)
MultLoop(width, mult, cutoff) == IF width > cutoff THEN MultLoop(width \div 2, mult * 2, cutoff) ELSE mult
Half(d, mult) == (((d - (d % mult)) \div WB) \div 2) * WB
Split(m, k, n, cutoff) ==
  LET mult == MultLoop(Min({m, n, k}) \div 2, WB, cutoff)
  IN [mmm |-> Half(m, mult), kkk |-> Half(k, mult), nnn |-> Half(n, mult)]
BaseCase(m, k, n, cutoff, closer(_, _)) == closer(m, cutoff) \/ closer(k, cutoff) \/ closer(n, cutoff)

\* the split is usable: no empty quadrant, everything inside the operands
SplitOK(m, k, n, cutoff, closer(_, _)) ==
  BaseCase(m, k, n, cutoff, closer) \/
    LET s == Split(m, k, n, cutoff) IN
    /\ s.mmm > 0 /\ s.kkk > 0 /\ s.nnn > 0
    /\ 2 * s.mmm <= m /\ 2 * s.kkk <= k /\ 2 * s.nnn <= n
    /\ s.mmm % WB = 0 /\ s.kkk % WB = 0 /\ s.nnn % WB = 0

Q(A, i, j, h, w) == Sub(A, i * h, j * w, h, w)                  \* quadrant (i,j) of size h x w
Glue(C11, C12, C21, C22) == Stack(Concat(C11, C12), Concat(C21, C22))

\* ---- _mzd_mul_even: C = A*B ---------------------------------------------------
MulEvenCore(A, B, s) ==
  LET A11 == Q(A, 0, 0, s.mmm, s.kkk)  A12 == Q(A, 0, 1, s.mmm, s.kkk)
      A21 == Q(A, 1, 0, s.mmm, s.kkk)  A22 == Q(A, 1, 1, s.mmm, s.kkk)
      B11 == Q(B, 0, 0, s.kkk, s.nnn)  B12 == Q(B, 0, 1, s.kkk, s.nnn)
      B21 == Q(B, 1, 0, s.kkk, s.nnn)  B22 == Q(B, 1, 1, s.kkk, s.nnn)
      Wkn1 == Add(B22, B12)            \* Wkn = B22 + B12
      Wmk1 == Add(A22, A12)            \* Wmk = A22 + A12
      C21a == Mul(Wmk1, Wkn1)          \* C21 = Wmk * Wkn
      Wmk2 == Add(A22, A21)            \* Wmk = A22 - A21
      Wkn2 == Add(B22, B21)            \* Wkn = B22 - B21
      C22a == Mul(Wmk2, Wkn2)          \* C22 = Wmk * Wkn
      Wkn3 == Add(Wkn2, B12)           \* Wkn = Wkn + B12
      Wmk3 == Add(Wmk2, A12)           \* Wmk = Wmk + A12
      C11a == Mul(Wmk3, Wkn3)          \* C11 = Wmk * Wkn
      Wmk4 == Add(Wmk3, A11)           \* Wmk = Wmk - A11
      C12a == Mul(Wmk4, B12)           \* C12 = Wmk * B12
      C12b == Add(C12a, C22a)          \* C12 = C12 + C22
      Wmk5 == Mul(A12, B21)            \* Wmk = A12 * B21
      C11b == Add(C11a, Wmk5)          \* C11 = C11 + Wmk
      C12c == Add(C11b, C12b)          \* C12 = C11 - C12
      C11c == Add(C21a, C11b)          \* C11 = C21 - C11
      Wkn4 == Add(Wkn3, B11)           \* Wkn = Wkn - B11
      C21b == Mul(A21, Wkn4)           \* C21 = A21 * Wkn
      C21c == Add(C11c, C21b)          \* C21 = C11 - C21
      C22b == Add(C22a, C11c)          \* C22 = C22 + C11
      C11d == Mul(A11, B11)            \* C11 = A11 * B11
      C11e == Add(C11d, Wmk5)          \* C11 = C11 + Wmk
  IN Glue(C11e, C12c, C21c, C22b)

\* the three remainder strips, applied to a C whose top-left 2mmm x 2nnn block is `core`
Strips(C0, core, A, B, s, acc) ==
  LET m == A.m  k == A.n  n == B.n
      nn == 2 * s.nnn  mm == 2 * s.mmm  kk == 2 * s.kkk
      C1 == Embed(C0, 0, 0, core)
      \* last columns: C[:, nn..) (+)= A * B[:, nn..)
      C2 == IF n > nn
            THEN LET P == Mul(A, Sub(B, 0, nn, k, n - nn)) IN
                 Embed(C1, 0, nn, IF acc THEN Add(Sub(C1, 0, nn, m, n - nn), P) ELSE P)
            ELSE C1
      \* last rows: C[mm.., 0..nn) (+)= A[mm.., :] * B[:, 0..nn)
      C3 == IF m > mm
            THEN LET P == Mul(Sub(A, mm, 0, m - mm, k), Sub(B, 0, 0, k, nn)) IN
                 Embed(C2, mm, 0, IF acc THEN Add(Sub(C2, mm, 0, m - mm, nn), P) ELSE P)
            ELSE C2
      \* inner remainder: C[0..mm, 0..nn) += A[0..mm, kk..) * B[kk.., 0..nn)
      C4 == IF k > kk
            THEN Embed(C3, 0, 0, Add(Sub(C3, 0, 0, mm, nn), Mul(Sub(A, 0, kk, mm, k - kk), Sub(B, kk, 0, k - kk, nn))))
            ELSE C3
  IN C4

MulEven(C0, A, B, cutoff) ==
  IF BaseCase(A.m, A.n, B.n, cutoff, Closer) THEN Mul(A, B)
  ELSE LET s == Split(A.m, A.n, B.n, cutoff) IN Strips(C0, MulEvenCore(A, B, s), A, B, s, FALSE)

\* ---- _mzd_sqr_even: C = A*A (square A, the same split in all three dimensions) ----
SqrEvenCore(A, mmm) ==
  LET A11 == Q(A, 0, 0, mmm, mmm)  A12 == Q(A, 0, 1, mmm, mmm)
      A21 == Q(A, 1, 0, mmm, mmm)  A22 == Q(A, 1, 1, mmm, mmm)
      Wkn1 == Add(A22, A12)   C21a == Mul(Wkn1, Wkn1)
      Wkn2 == Add(A22, A21)   C22a == Mul(Wkn2, Wkn2)
      Wkn3 == Add(Wkn2, A12)  C11a == Mul(Wkn3, Wkn3)
      Wkn4 == Add(Wkn3, A11)  C12a == Mul(Wkn4, A12)
      C12b == Add(C12a, C22a)
      Wmk == Mul(A12, A21)
      C11b == Add(C11a, Wmk)
      C12c == Add(C11b, C12b)
      C11c == Add(C21a, C11b)
      C21b == Mul(A21, Wkn4)
      C21c == Add(C11c, C21b)
      C22b == Add(C22a, C11c)
      C11d == Mul(A11, A11)
      C11e == Add(C11d, Wmk)
  IN Glue(C11e, C12c, C21c, C22b)
SqrEven(C0, A, cutoff) ==
  IF Closer(A.m, cutoff) THEN Mul(A, A)
  ELSE LET mmm == Half(A.m, MultLoop(A.m \div 2, WB, cutoff))
           s == [mmm |-> mmm, kkk |-> mmm, nnn |-> mmm]
       IN Strips(C0, SqrEvenCore(A, mmm), A, A, s, FALSE)

\* ---- _mzd_addmul_even: C += A*B ------------------------------------------------
AddMulEvenCore(C, A, B, s) ==
  LET A11 == Q(A, 0, 0, s.mmm, s.kkk)  A12 == Q(A, 0, 1, s.mmm, s.kkk)
      A21 == Q(A, 1, 0, s.mmm, s.kkk)  A22 == Q(A, 1, 1, s.mmm, s.kkk)
      B11 == Q(B, 0, 0, s.kkk, s.nnn)  B12 == Q(B, 0, 1, s.kkk, s.nnn)
      B21 == Q(B, 1, 0, s.kkk, s.nnn)  B22 == Q(B, 1, 1, s.kkk, s.nnn)
      C11 == Q(C, 0, 0, s.mmm, s.nnn)  C12 == Q(C, 0, 1, s.mmm, s.nnn)
      C21 == Q(C, 1, 0, s.mmm, s.nnn)  C22 == Q(C, 1, 1, s.mmm, s.nnn)
      S1 == Add(A22, A21)              \* 1
      T1 == Add(B22, B21)              \* 2
      U1 == Mul(S1, T1)                \* 3
      C22a == Add(U1, C22)             \* 4
      C12a == Add(U1, C12)             \* 5
      U2 == Mul(A12, B21)              \* 8
      C11a == Add(U2, C11)             \* 9
      C11b == Add(C11a, Mul(A11, B11)) \* 11
      S2 == Add(S1, A12)               \* 6
      T2 == Add(T1, B12)               \* 7
      U3 == Add(U2, Mul(S2, T2))       \* 10
      C12b == Add(C12a, U3)            \* 15
      S3 == Add(A11, S2)               \* 12
      C12c == Add(C12b, Mul(S3, B12))  \* 14
      T3 == Add(B11, T2)               \* 13
      C21a == Add(C21, Mul(A21, T3))   \* 16
      S4 == Add(A22, A12)              \* 17
      T4 == Add(B22, B12)              \* 18
      U4 == Add(U3, Mul(S4, T4))       \* 19
      C21b == Add(C21a, U4)            \* 20
      C22b == Add(C22a, U4)            \* 21
  IN Glue(C11b, C12c, C21b, C22b)
AddMulEven(C, A, B, cutoff) ==
  IF BaseCase(A.m, A.n, B.n, cutoff, Closer) THEN Add(C, Mul(A, B))
  ELSE LET s == Split(A.m, A.n, B.n, cutoff) IN Strips(C, AddMulEvenCore(C, A, B, s), A, B, s, TRUE)

\* ---- _mzd_addsqr_even: C += A*A ---------------------------------------------------
AddSqrEvenCore(C, A, mmm) ==
  LET A11 == Q(A, 0, 0, mmm, mmm)  A12 == Q(A, 0, 1, mmm, mmm)
      A21 == Q(A, 1, 0, mmm, mmm)  A22 == Q(A, 1, 1, mmm, mmm)
      C11 == Q(C, 0, 0, mmm, mmm)  C12 == Q(C, 0, 1, mmm, mmm)
      C21 == Q(C, 1, 0, mmm, mmm)  C22 == Q(C, 1, 1, mmm, mmm)
      S1 == Add(A22, A21)
      U1 == Mul(S1, S1)
      C22a == Add(U1, C22)
      C12a == Add(U1, C12)
      U2 == Mul(A12, A21)
      C11a == Add(U2, C11)
      C11b == Add(C11a, Mul(A11, A11))
      S2 == Add(S1, A12)
      U3 == Add(U2, Mul(S2, S2))
      C12b == Add(C12a, U3)
      S3 == Add(A11, S2)
      C12c == Add(C12b, Mul(S3, A12))
      C21a == Add(C21, Mul(A21, S3))
      S4 == Add(A22, A12)
      U4 == Add(U3, Mul(S4, S4))
      C21b == Add(C21a, U4)
      C22b == Add(C22a, U4)
  IN Glue(C11b, C12c, C21b, C22b)
AddSqrEven(C, A, cutoff) ==
  IF Closer(A.m, cutoff) THEN Add(C, Mul(A, A))
  ELSE LET mmm == Half(A.m, MultLoop(A.m \div 2, WB, cutoff))
           s == [mmm |-> mmm, kkk |-> mmm, nnn |-> mmm]
       IN Strips(C, AddSqrEvenCore(C, A, mmm), A, A, s, TRUE)
=============================================================================
