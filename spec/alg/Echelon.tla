------------------------------ MODULE Echelon ------------------------------
(***************************************************************************)
(* Implementation-shaped model of the M4RI elimination                      *)
(* (_mzd_echelonize_m4ri in m4ri/brilliantrussian.c, C02), without the      *)
(* density heuristic: the block loop over kk = KM*k columns (KM = 6 in the  *)
(* code), _mzd_gauss_submatrix(_full) with its row scanning and clearing     *)
(* side effects, the save / top-reduce / copy-back of the pivot rows in the *)
(* non-reduced mode, the choice of the number of lookup tables and their    *)
(* split sizes (caller side and mzd_process_rowsN side), the table look-up  *)
(* applied to the rows below (only when the block is complete) and above    *)
(* (only when full), and the mzd_find_pivot continuation when a block ends  *)
(* early.                                                                    *)
(***************************************************************************)
EXTENDS GF2

CONSTANT KM      \* tables per block (6 in the code)

From(row, c) == {x \in row : x >= c}
AddFrom(R, i, src, off) == [R EXCEPT ![i] = Xor(R[i], From(R[src], off))]      \* mzd_row_add_offset
BlockBits(row, c, n) == {x - c : x \in {y \in row : y >= c /\ y < c + n}}

\* ---- _mzd_gauss_submatrix_full(A, r, c, end_row, k) : [R, kbar] ---------------------------
RECURSIVE ClearFirstFull(_, _, _, _, _, _)
ClearFirstFull(R, i, r, c, tmp, l) ==       \* for l in 0 .. j-c-1 with bit l of tmp: row i += row r+l from c+l
  IF tmp = {} THEN R ELSE LET b == SetMin(tmp) IN ClearFirstFull(AddFrom(R, i, r + b, c + b), i, r, c, tmp \ {b}, l)
RECURSIVE ClearAbove(_, _, _, _)
ClearAbove(R, l, sr, j) == IF l >= sr THEN R ELSE ClearAbove(IF j \in R[l] THEN AddFrom(R, l, sr, j) ELSE R, l + 1, sr, j)
RECURSIVE ScanFull(_, _, _, _, _, _, _)
\* scan rows i = i0 .. end-1 for a pivot in column j; returns [R, found, sr]
ScanFull(R, i, endr, r, c, j, sr) ==
  IF i >= endr THEN [R |-> R, found |-> FALSE, sr |-> sr]
  ELSE LET tmp == BlockBits(R[i], c, j - c + 1) IN
       IF tmp = {} THEN ScanFull(R, i + 1, endr, r, c, j, sr)
       ELSE LET R1 == ClearFirstFull(R, i, r, c, {b \in tmp : b < j - c}, 0) IN
            IF j \in R1[i]
            THEN LET R2 == SwapF(R1, i, sr)
                     R3 == ClearAbove(R2, r, sr, j)
                 IN [R |-> R3, found |-> TRUE, sr |-> sr + 1]
            ELSE ScanFull(R1, i + 1, endr, r, c, j, sr)
RECURSIVE GaussFullCols(_, _, _, _, _, _, _)
GaussFullCols(R, r, c, endr, k, j, sr) ==
  IF j >= c + k THEN [R |-> R, kbar |-> j - c]
  ELSE LET s == ScanFull(R, sr, endr, r, c, j, sr) IN
       IF s.found THEN GaussFullCols(s.R, r, c, endr, k, j + 1, s.sr) ELSE [R |-> s.R, kbar |-> j - c]
GaussSubFull(R, r, c, endr, k) == GaussFullCols(R, r, c, endr, k, c, r)

\* ---- _mzd_gauss_submatrix (non-reduced) ------------------------------------------------------
RECURSIVE ClearFirstSeq(_, _, _, _, _, _)
ClearFirstSeq(R, i, r, c, l, n) ==          \* sequentially: if row i has column c+l then row i += row r+l from c+l
  IF l >= n THEN R ELSE ClearFirstSeq(IF (c + l) \in R[i] THEN AddFrom(R, i, r + l, c + l) ELSE R, i, r, c, l + 1, n)
RECURSIVE ScanUpper(_, _, _, _, _, _, _)
ScanUpper(R, i, endr, r, c, j, sr) ==
  IF i >= endr THEN [R |-> R, found |-> FALSE, sr |-> sr]
  ELSE LET R1 == ClearFirstSeq(R, i, r, c, 0, j - c) IN
       IF j \in R1[i] THEN [R |-> SwapF(R1, i, sr), found |-> TRUE, sr |-> sr + 1]
       ELSE ScanUpper(R1, i + 1, endr, r, c, j, sr)
RECURSIVE GaussUpperCols(_, _, _, _, _, _, _)
GaussUpperCols(R, r, c, endr, k, j, sr) ==
  IF j >= c + k THEN [R |-> R, kbar |-> j - c]
  ELSE LET s == ScanUpper(R, sr, endr, r, c, j, sr) IN
       IF s.found THEN GaussUpperCols(s.R, r, c, endr, k, j + 1, s.sr) ELSE [R |-> s.R, kbar |-> j - c]
GaussSub(R, r, c, endr, k) == GaussUpperCols(R, r, c, endr, k, c, r)

\* ---- _mzd_gauss_submatrix_top: make the kbar x kbar block the identity -------------------------
RECURSIVE GaussTopCols(_, _, _, _, _)
GaussTopCols(R, r, c, kbar, t) ==
  IF t >= kbar THEN R ELSE GaussTopCols(ClearAbove(R, r, r + t, c + t), r, c, kbar, t + 1)
GaussSubTop(R, r, c, kbar) == GaussTopCols(R, r, c, kbar, 0)

\* ---- number of tables and split sizes (caller side / process_rows side: the same formulas) ---------
NTab(kbar, k) == IF kbar > 5 * k THEN 6 ELSE IF kbar > 4 * k THEN 5 ELSE IF kbar > 3 * k THEN 4
                 ELSE IF kbar > 2 * k THEN 3 ELSE IF kbar > k THEN 2 ELSE 1
SplitSizes(kbar, nt) ==
  IF nt = 2 THEN << kbar \div 2, kbar - kbar \div 2 >>
  ELSE [t \in 1 .. nt |-> (kbar \div nt) + (IF (kbar % nt) >= nt - t /\ t < nt THEN 1 ELSE 0)]
SumSeq(s) == FoldSet(LAMBDA t, a : a + s[t], 0, DOMAIN s)

\* table look-up (mzd_make_table + mzd_process_rowsN): the bits of row i in columns c .. c+kbar-1 are split
\* into nt chunks; chunk t indexes table t, built from the pivot rows r+off_t .. (restricted to columns >= c)
RECURSIVE Offsets(_, _)
Offsets(sz, t) == IF t = 1 THEN 0 ELSE Offsets(sz, t - 1) + sz[t - 1]
ApplyTables(R, lo, hi, r, c, kbar, k) ==
  LET nt == NTab(kbar, k)  sz == SplitSizes(kbar, nt)
      upd(row) == LET x == BlockBits(row, c, kbar) IN
                  FoldSet(LAMBDA t, acc :
                            LET off == Offsets(sz, t)
                                chunk == {b - off : b \in {y \in x : y >= off /\ y < off + sz[t]}}
                            IN Xor(acc, From(XorRows({r + off + b : b \in chunk}, R), c)),
                          row, 1 .. nt)
  IN TLCEval([i \in DOMAIN R |-> IF i >= lo /\ i < hi THEN upd(R[i]) ELSE R[i]])

\* mzd_find_pivot(A, r, c): left-most column >= c holding a one in some row >= r; the first such row
FindPivot(R, m, r, c) ==
  LET cols == UNION {From(R[i], c) : i \in r .. m - 1} IN
  IF cols = {} THEN [found |-> FALSE, r |-> 0, c |-> 0]
  ELSE LET cc == SetMin(cols) IN [found |-> TRUE, c |-> cc, r |-> SetMin({i \in r .. m - 1 : cc \in R[i]})]

\* ---- the block loop -----------------------------------------------------------------------------
\* one pass of the block loop from (r, c): [R, r, c, stop] - stop: the block ended early and no further pivot exists
Step(R, m, n, full, k, r, c) ==
       LET kk == Min({KM * k, n - c})
           g == IF full THEN GaussSubFull(R, r, c, m, kk) ELSE GaussSub(R, r, c, m, kk)
           kbar == g.kbar
           saved == g.R                                            \* U = pivot rows before the top reduction
           R1 == IF full THEN g.R ELSE GaussSubTop(g.R, r, c, kbar)
           R2 == IF kbar > 0 /\ kbar = kk THEN ApplyTables(R1, r + kbar, m, r, c, kbar, k) ELSE R1
           R3 == IF kbar > 0 /\ full THEN ApplyTables(R2, 0, r, r, c, kbar, k) ELSE R2
           \* copy back the saved (non-reduced) pivot rows from column c's word on; at GF2 level: the whole rows
           \* from the block's first word (modelled at column granularity of the block start)
           R4 == IF full THEN R3 ELSE TLCEval([i \in DOMAIN R3 |-> IF i >= r /\ i < r + kbar THEN saved[i] ELSE R3[i]])
           r2 == r + kbar  c2 == c + kbar
       IN IF kk # kbar
          THEN LET p == FindPivot(R4, m, r2, c2) IN
               IF p.found THEN [R |-> SwapF(R4, r2, p.r), r |-> r2, c |-> p.c, stop |-> FALSE] ELSE [R |-> R4, r |-> r2, c |-> c2, stop |-> TRUE]
          ELSE [R |-> R4, r |-> r2, c |-> c2, stop |-> FALSE]
RECURSIVE Loop(_, _, _, _, _, _, _)
Loop(R, m, n, full, k, r, c) ==
  IF c >= n THEN [R |-> R, rank |-> r]
  ELSE LET s == Step(R, m, n, full, k, r, c) IN
       IF s.stop THEN [R |-> s.R, rank |-> s.r] ELSE Loop(s.R, m, n, full, k, s.r, s.c)

\* ---- _mzd_top_echelonize_m4ri(A, k, r, c, max_r): completes a row echelon form to the reduced one ------------
\* per block: Gauss on the (at most kk) rows from r on, tables from the kbar pivot rows, look-up applied to the rows ABOVE
\* (0 .. min(r, max_r) - 1); an incomplete block skips the column in which no pivot was found
RECURSIVE TopLoop(_, _, _, _, _, _, _, _)
TopLoop(R, m, n, k, r, c, maxr, kk0) ==
  IF c >= n THEN [R |-> R, rank |-> r]
  ELSE LET kk == IF c + kk0 > n THEN n - c ELSE kk0
           g == GaussSubFull(R, r, c, Min({m, r + kk}), kk)
           kbar == g.kbar
           R2 == IF kbar > 0 THEN ApplyTables(g.R, 0, Min({r, maxr}), r, c, kbar, k) ELSE g.R
       IN TopLoop(R2, m, n, k, r + kbar, c + kbar + (IF kk # kbar THEN 1 ELSE 0), maxr, kk)
TopEchelonM4RI(A, k) == LET res == TopLoop(A.r, A.m, A.n, k, 0, 0, A.m, KM * k) IN [A |-> Mat(A.m, A.n, res.R), rank |-> res.rank]

EchelonM4RI(A, full, k) == LET res == Loop(A.r, A.m, A.n, full, k, 0, 0) IN [A |-> Mat(A.m, A.n, res.R), rank |-> res.rank]
=============================================================================
