--------------------------- MODULE EchelonHybrid ---------------------------
(***************************************************************************)
(* Implementation-shaped model of the density-switching elimination         *)
(* (_mzd_echelonize_m4ri with heuristic = 1, behind mzd_echelonize; C02):   *)
(* the M4RI block loop of alg/Echelon.tla, interrupted at a block boundary  *)
(* c > last_check + GAP (GAP = 256 in the code) when the sampled density of *)
(* the remaining block says "dense": the rest - the window of the rows from *)
(* r on and the columns from the start of the word that holds column c on - *)
(* goes to mzd_echelonize_pluq (alg/EchelonPluq.tla); with full reduction   *)
(* the rows above are then cleared by _mzd_top_echelonize_m4ri from (r, c)  *)
(* with max_r = r.  A dense verdict before the first block hands the whole  *)
(* matrix over.  The density estimate is sampled by design, so the verdict  *)
(* is a parameter: DENSE is the set of columns at which a check, if made,   *)
(* says "dense" (MC_EchelonHybrid takes every single column and none).      *)
(***************************************************************************)
EXTENDS EchelonPluq, Echelon

CONSTANT GAP

PluqOnWindow(R, m, n, full, r, c0) ==
  LET A == Mat(m, n, R)
      E == IF full THEN EchelonPluqFull(Sub(A, r, c0, m - r, n - c0)) ELSE EchelonPluqNF(Sub(A, r, c0, m - r, n - c0))
  IN [R |-> Embed(A, r, c0, E.A).r, rank |-> E.rank]

RECURSIVE HLoop(_, _, _, _, _, _, _, _, _)
HLoop(R, m, n, full, k, r, c, last, DENSE) ==
  IF c >= n THEN [R |-> R, rank |-> r, handover |-> -1]
  ELSE IF c > last + GAP /\ r < m /\ c \in DENSE
       THEN LET H == PluqOnWindow(R, m, n, full, r, WB * (c \div WB))
                R1 == IF full /\ r > 0 THEN TopLoop(H.R, m, n, k, r, c, r, KM * k).R ELSE H.R
            IN [R |-> R1, rank |-> r + H.rank, handover |-> c]
       ELSE LET s == Step(R, m, n, full, k, r, c)
                l2 == IF c > last + GAP THEN c ELSE last
            IN IF s.stop THEN [R |-> s.R, rank |-> s.r, handover |-> -1] ELSE HLoop(s.R, m, n, full, k, s.r, s.c, l2, DENSE)

EchelonHybrid(A, full, k, DENSE) ==
  IF 0 \in DENSE
  THEN LET H == PluqOnWindow(A.r, A.m, A.n, full, 0, 0) IN [A |-> Mat(A.m, A.n, H.R), rank |-> H.rank, handover |-> 0]
  ELSE LET res == HLoop(A.r, A.m, A.n, full, k, 0, 0, 0, DENSE) IN [A |-> Mat(A.m, A.n, res.R), rank |-> res.rank, handover |-> res.handover]
=============================================================================
