--------------------------- MODULE EchelonHybrid ---------------------------
(***************************************************************************)
(* Implementation-shaped model of the density-switching elimination         *)
(* (_mzd_echelonize_m4ri with heuristic = 1, behind mzd_echelonize; C02):   *)
(* the M4RI block loop of alg/Echelon.tla, interrupted at a block boundary  *)
(* c > last_check + GAP (GAP = 256 in the code) when the sampled density of *)
(* the remaining block says "dense": the rest - the window of the rows from *)
(* r on and the columns from the start of the word that holds column c on - *)
(* goes to mzd_echelonize_pluq (alg/EchelonPluq.tla); with full reduction   *)
(* the rows above are then cleared by _mzd_top_echelonize_m4ri from (r, c)  *)
(* with max_r = r.  A dense verdict before the first block hands the whole  *)
(* matrix over.  The density estimate is sampled by design, so the verdict  *)
(* is a parameter: IsDense(R, m, n, r, c, D) with an opaque context D - in  *)
(* MC_EchelonHybrid D is the set of columns at which a check, if made, says *)
(* "dense" (every single column and none); the trace validator substitutes  *)
(* the sampling of _mzd_density itself with D = the threshold and compares  *)
(* the outcome with the code's bit for bit (model conformance).  TopK(r, n) *)
(* is the table parameter the top reduction chooses for itself.  (With the  *)
(* first-candidate pivot rule of both routes the non-reduced results are    *)
(* the same rows wherever the switch happens - observed on every recorded   *)
(* call - so the conformance check binds the composition and the k choice,  *)
(* not the position of the switch.)                                         *)
(***************************************************************************)
EXTENDS EchelonPluq, Echelon

CONSTANTS GAP, IsDense(_, _, _, _, _, _), TopK(_, _)

PluqOnWindow(R, m, n, full, r, c0) ==
  LET A == Mat(m, n, R)
      E == IF full THEN EchelonPluqFull(Sub(A, r, c0, m - r, n - c0)) ELSE EchelonPluqNF(Sub(A, r, c0, m - r, n - c0))
  IN [R |-> Embed(A, r, c0, E.A).r, rank |-> E.rank]

RECURSIVE HLoop(_, _, _, _, _, _, _, _, _)
HLoop(R, m, n, full, k, r, c, last, D) ==
  IF c >= n THEN [R |-> R, rank |-> r, handover |-> -1]
  ELSE IF c > last + GAP /\ r < m /\ IsDense(R, m, n, r, c, D)
       THEN LET H == PluqOnWindow(R, m, n, full, r, WB * (c \div WB))
                kt == TopK(r, n)
                R1 == IF full /\ r > 0 THEN TopLoop(H.R, m, n, kt, r, c, r, KM * kt).R ELSE H.R
            IN [R |-> R1, rank |-> r + H.rank, handover |-> c]
       ELSE LET s == Step(R, m, n, full, k, r, c)
                l2 == IF c > last + GAP THEN c ELSE last
            IN IF s.stop THEN [R |-> s.R, rank |-> s.r, handover |-> -1] ELSE HLoop(s.R, m, n, full, k, s.r, s.c, l2, D)

EchelonHybrid(A, full, k, D) ==
  IF IsDense(A.r, A.m, A.n, 0, 0, D)
  THEN LET H == PluqOnWindow(A.r, A.m, A.n, full, 0, 0) IN [A |-> Mat(A.m, A.n, H.R), rank |-> H.rank, handover |-> 0]
  ELSE LET res == HLoop(A.r, A.m, A.n, full, k, 0, 0, 0, D) IN [A |-> Mat(A.m, A.n, res.R), rank |-> res.rank, handover |-> res.handover]
=============================================================================
