-------------------------------- MODULE Gray --------------------------------
(***************************************************************************)
(* Gray code tables (m4ri/graycode.c) and the Four-Russians lookup table    *)
(* built from them (mzd_make_table), C19.  The operators are transcriptions *)
(* of the C routines over naturals / bit sets; MC_Gray checks the listed    *)
(* properties for ALL k = 1..16 and all 2^k entries, TraceKernels compares  *)
(* the tables dumped from the real library with these operators.            *)
(***************************************************************************)
EXTENDS Naturals, Integers, FiniteSets, FiniteSetsExt, Sequences, TLC

Bit(x, b) == (x \div (2 ^ b)) % 2
BitsOfInt(x, k) == {b \in 0 .. k - 1 : Bit(x, b) = 1}

\* m4ri_gray_code(number, length): scanning from the most significant bit, result bit i is
\* (bit i+1 of number) xor (bit i of number)
GrayCode(number, length) ==
  LET g[i \in -1 .. length - 1] ==
        IF i = -1 THEN 0
        ELSE g[i - 1] + (2 ^ i) * ((Bit(number, i + 1) + Bit(number, i)) % 2)
  IN g[length - 1]
\* (bits above length-1 of number are zero for number < 2^length, so Bit(number, length) = 0)

\* m4ri_build_code: inc[j * 2^(l-i) - 1] = l - i for i = l..1, j = 1..2^i ; the last write wins,
\* i.e. the largest e = l - i with e <= l-1 and 2^e | (x+1)
IncOf(x, l) == CHOOSE e \in 0 .. l - 1 : (x + 1) % (2 ^ e) = 0 /\ \A f \in e + 1 .. l - 1 : (x + 1) % (2 ^ f) # 0

\* the properties of C19 for table size k, entry i
Distinct(k) == Cardinality({GrayCode(i, k) : i \in 0 .. 2 ^ k - 1}) = 2 ^ k
AllValues(k) == {GrayCode(i, k) : i \in 0 .. 2 ^ k - 1} = 0 .. 2 ^ k - 1
OneBitStep(k, i) ==
  LET a == BitsOfInt(GrayCode(i, k), k)
      b == BitsOfInt(GrayCode((i + 1) % (2 ^ k), k), k)
  IN (a \ b) \cup (b \ a) = {IncOf(i, k)}
=============================================================================
