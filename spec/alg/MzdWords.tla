------------------------------ MODULE MzdWords ------------------------------
(***************************************************************************)
(* Word-level model of the masking discipline of m4ri/mzd.h and mzd.c.      *)
(*                                                                          *)
(* Memory is a function from word addresses to words; a word is the set of  *)
(* its set bit positions 0..W-1 (W is a constant: 2..4 for model checking,  *)
(* 64 in the code).  A matrix header is [base, nrows, ncols, rowstride,     *)
(* owner]: row r, word j lives at address base + r*rowstride + j; a window  *)
(* shares the memory of its parent, so the last word of its rows may hold   *)
(* FOREIGN bits (columns >= ncols) that must be preserved, while an owner   *)
(* must keep them zero (policy comment in mzd.h).                           *)
(*                                                                          *)
(* The operators below are transcriptions - word loop by word loop, mask by *)
(* mask - of the data-movement and row primitives (as repaired by the       *)
(* fix: commits listed in DESIGN.md section 12).  MC_MzdWords checks, for   *)
(* ALL memory contents and ALL window placements within its bounds, that    *)
(* each primitive (1) computes the GF(2)-level result of Ops.tla on the     *)
(* viewed values, (2) changes no bit outside the destination view (frame),  *)
(* (3) leaves owners with zero excess bits, and (4) touches only addresses  *)
(* inside the rows of its operands.                                         *)
(***************************************************************************)
EXTENDS Naturals, Integers, FiniteSets, FiniteSetsExt, Sequences, SequencesExt, TLC

CONSTANT W           \* bits per word

\* ---- words and the mask macros of misc.h --------------------------------
Bits == 0 .. W - 1
LeftMask(n) == IF n % W = 0 THEN Bits ELSE 0 .. (n % W) - 1        \* __M4RI_LEFT_BITMASK
RightMask(n) == (W - n) .. (W - 1)                                  \* __M4RI_RIGHT_BITMASK, 0 < n <= W
XorW(a, b) == (a \ b) \cup (b \ a)
AndW(a, b) == a \cap b
NotW(a) == Bits \ a
ShlW(a, k) == {b + k : b \in {x \in a : x + k < W}}                 \* a << k
ShrW(a, k) == {b - k : b \in {x \in a : x >= k}}                    \* a >> k

\* ---- headers --------------------------------------------------------------
Width(M) == (M.ncols + W - 1) \div W
HighMask(M) == LeftMask(M.ncols % W)
Addr(M, r, j) == M.base + r * M.rowstride + j
RowAddrs(M, r) == {Addr(M, r, j) : j \in 0 .. Width(M) - 1}
AllAddrs(M) == UNION {RowAddrs(M, r) : r \in 0 .. M.nrows - 1}
\* the set of <<address, bit>> pairs that belong to the view of M
ViewBits(M) == {<<Addr(M, r, c \div W), c % W>> : r \in 0 .. M.nrows - 1, c \in 0 .. M.ncols - 1}

\* abstract value of M in memory mem: rows as sets of column indices (as GF2.tla)
ValueOf(mem, M) == [r \in 0 .. M.nrows - 1 |-> {c \in 0 .. M.ncols - 1 : (c % W) \in mem[Addr(M, r, c \div W)]}]

\* ---- memory updates -----------------------------------------------------------
Put(mem, a, w) == [mem EXCEPT ![a] = w]

\* fold f(mem, j) over j = lo .. hi in ascending order (a C for-loop over words or rows)
ForWords(mem, lo, hi, f(_, _)) == FoldLeft(f, mem, [k \in 1 .. (hi - lo + 1) |-> lo + k - 1])

-----------------------------------------------------------------------------
(* mzd_copy(N, P): N at least as large as P; the last word of each row of P is merged under P's mask *)
CopyRow(mem, N, P, i) ==
  LET wide == Width(P) - 1
      m1 == ForWords(mem, 0, wide - 1, LAMBDA m, j : Put(m, Addr(N, i, j), m[Addr(P, i, j)]))
      mask == HighMask(P)
  IN Put(m1, Addr(N, i, wide), AndW(m1[Addr(N, i, wide)], NotW(mask)) \cup AndW(m1[Addr(P, i, wide)], mask))
MzdCopy(mem, N, P) == ForWords(mem, 0, P.nrows - 1, LAMBDA m, i : CopyRow(m, N, P, i))

(* _mzd_row_swap(M, a, b, 0) *)
WRowSwap(mem, M, a, b) ==
  IF a = b THEN mem ELSE
  LET wide == Width(M) - 1
      m1 == ForWords(mem, 0, wide - 1, LAMBDA m, j :
               Put(Put(m, Addr(M, a, j), mem[Addr(M, b, j)]), Addr(M, b, j), mem[Addr(M, a, j)]))
      tmp == AndW(XorW(mem[Addr(M, a, wide)], mem[Addr(M, b, wide)]), HighMask(M))
  IN Put(Put(m1, Addr(M, a, wide), XorW(mem[Addr(M, a, wide)], tmp)), Addr(M, b, wide), XorW(mem[Addr(M, b, wide)], tmp))

(* mzd_row_add_offset(M, dst, src, coloffset), word loop without SSE2; dst # src *)
RowAddOffset(mem, M, dst, src, off) ==
  LET sb == off \div W
      mask_begin == RightMask(W - (off % W))
      m1 == Put(mem, Addr(M, dst, sb), XorW(mem[Addr(M, dst, sb)], AndW(mem[Addr(M, src, sb)], mask_begin)))
      m2 == ForWords(m1, sb + 1, Width(M) - 1, LAMBDA m, j : Put(m, Addr(M, dst, j), XorW(m[Addr(M, dst, j)], mem[Addr(M, src, j)])))
      last == Width(M) - 1
  \* revert the excess bits of the last word
  IN Put(m2, Addr(M, dst, last), XorW(m2[Addr(M, dst, last)], AndW(mem[Addr(M, src, last)], NotW(HighMask(M)))))

(* mzd_row_clear_offset(M, row, coloffset) *)
RowClearOffset(mem, M, row, off) ==
  LET sb == off \div W
      temp == IF off % W # 0 THEN AndW(mem[Addr(M, row, sb)], LeftMask(off % W)) ELSE {}
      last == Width(M) - 1
  IN IF sb = last
     THEN Put(mem, Addr(M, row, sb), temp \cup AndW(mem[Addr(M, row, sb)], NotW(HighMask(M))))
     ELSE LET m1 == Put(mem, Addr(M, row, sb), temp)
              m2 == ForWords(m1, sb + 1, last - 1, LAMBDA m, j : Put(m, Addr(M, row, j), {}))
          IN Put(m2, Addr(M, row, last), AndW(m2[Addr(M, row, last)], NotW(HighMask(M))))

(* mzd_read_bits(M, x, y, n): n <= W bits starting at column y, possibly spanning two words *)
ReadBits(mem, M, x, y, n) ==
  LET spot == y % W  block == y \div W  spill == spot + n - W
      temp == IF spill <= 0 THEN ShlW(mem[Addr(M, x, block)], -spill)
              ELSE ShlW(mem[Addr(M, x, block + 1)], W - spill) \cup ShrW(mem[Addr(M, x, block)], spill)
  IN ShrW(temp, W - n)
\* addresses read by mzd_read_bits (the second word only if the span crosses into it)
ReadBitsAddrs(M, x, y, n) == {Addr(M, x, y \div W)} \cup (IF (y % W) + n > W THEN {Addr(M, x, y \div W + 1)} ELSE {})

(* mzd_clear_bits / mzd_xor_bits *)
ClearBits(mem, M, x, y, n) ==
  LET values == ShrW(Bits, W - n)  spot == y % W  block == y \div W
      m1 == Put(mem, Addr(M, x, block), AndW(mem[Addr(M, x, block)], NotW(ShlW(values, spot))))
  IN IF n > W - spot THEN Put(m1, Addr(M, x, block + 1), AndW(m1[Addr(M, x, block + 1)], NotW(ShrW(values, W - spot)))) ELSE m1
XorBits(mem, M, x, y, n, values) ==
  LET spot == y % W  block == y \div W
      m1 == Put(mem, Addr(M, x, block), XorW(mem[Addr(M, x, block)], ShlW(values, spot)))
  IN IF n > W - spot THEN Put(m1, Addr(M, x, block + 1), XorW(m1[Addr(M, x, block + 1)], ShrW(values, W - spot))) ELSE m1

(* mzd_and_bits (as repaired, finding F19): values = n bits, AND-ed into the range; the rest of the words is kept *)
AndBits(mem, M, x, y, n, values) ==
  LET ones == ShrW(Bits, W - n)  spot == y % W  block == y \div W
      m1 == Put(mem, Addr(M, x, block), AndW(mem[Addr(M, x, block)], ShlW(values, spot) \cup NotW(ShlW(ones, spot))))
  IN IF n > W - spot THEN Put(m1, Addr(M, x, block + 1), AndW(m1[Addr(M, x, block + 1)], ShrW(values, W - spot) \cup NotW(ShrW(ones, W - spot)))) ELSE m1

(* mzd_write_bit *)
WriteBit(mem, M, r, c, v) ==
  Put(mem, Addr(M, r, c \div W), IF v = 1 THEN mem[Addr(M, r, c \div W)] \cup {c % W} ELSE mem[Addr(M, r, c \div W)] \ {c % W})

(* mzd_copy_row(B, i, A, j): B at least as wide as A; A's last word merged under A's mask *)
CopyRowW(mem, B, i, A, j) ==
  LET width == Min({Width(B), Width(A)}) - 1
      mask == LeftMask(A.ncols % W)
      m1 == ForWords(mem, 0, width - 1, LAMBDA m, k : Put(m, Addr(B, i, k), m[Addr(A, j, k)]))
  IN Put(m1, Addr(B, i, width), AndW(m1[Addr(B, i, width)], NotW(mask)) \cup AndW(m1[Addr(A, j, width)], mask))

(* mzd_extract_u / mzd_extract_l into a supplied k x k destination (k = min(nrows, ncols)): the leading square by  *)
(* mzd_submatrix, then the columns left of the diagonal (whole words, then mzd_clear_bits) resp. right of it        *)
(* (mzd_row_clear_offset) are cleared                                                                                 *)
ExtractUW(mem, U, A, MzdSubmatrixOp(_, _, _, _, _, _, _)) ==
  LET k == Min({A.nrows, A.ncols})
      m0 == MzdSubmatrixOp(mem, U, A, 0, 0, k, k)
      rowfix(m, i) ==
        LET m1 == ForWords(m, 0, (i \div W) - 1, LAMBDA mm, j : Put(mm, Addr(U, i, j), {}))
        IN IF i % W # 0 THEN ClearBits(m1, U, i, (i \div W) * W, i % W) ELSE m1
  IN ForWords(m0, 1, k - 1, rowfix)
ExtractLW(mem, L, A, MzdSubmatrixOp(_, _, _, _, _, _, _)) ==
  LET k == Min({A.nrows, A.ncols})
      m0 == MzdSubmatrixOp(mem, L, A, 0, 0, k, k)
  IN ForWords(m0, 0, k - 2, LAMBDA m, i : RowClearOffset(m, L, i, i + 1))

(* mzd_concat(C, A, B): words of A copied (last one under A's mask), then B bit by bit *)
RECURSIVE ConcatBits(_, _, _, _, _, _)
ConcatBits(mem, C, A, B, i, j) ==
  IF j >= B.ncols THEN mem
  ELSE ConcatBits(WriteBit(mem, C, i, j + A.ncols, IF (j % W) \in mem[Addr(B, i, j \div W)] THEN 1 ELSE 0), C, A, B, i, j + 1)
ConcatRow(mem, C, A, B, i) ==
  LET last == Width(A) - 1
      m1 == ForWords(mem, 0, last - 1, LAMBDA m, j : Put(m, Addr(C, i, j), m[Addr(A, i, j)]))
      m2 == Put(m1, Addr(C, i, last), AndW(m1[Addr(C, i, last)], NotW(HighMask(A))) \cup AndW(m1[Addr(A, i, last)], HighMask(A)))
  IN ConcatBits(m2, C, A, B, i, 0)
MzdConcat(mem, C, A, B) == ForWords(mem, 0, A.nrows - 1, LAMBDA m, i : ConcatRow(m, C, A, B, i))

(* mzd_stack(C, A, B) *)
StackRow(mem, C, ci, S, si) ==
  LET last == Width(S) - 1
      m1 == ForWords(mem, 0, last - 1, LAMBDA m, j : Put(m, Addr(C, ci, j), m[Addr(S, si, j)]))
  IN Put(m1, Addr(C, ci, last), AndW(m1[Addr(C, ci, last)], NotW(HighMask(C))) \cup AndW(m1[Addr(S, si, last)], HighMask(C)))
MzdStack(mem, C, A, B) ==
  LET m1 == ForWords(mem, 0, A.nrows - 1, LAMBDA m, i : StackRow(m, C, i, A, i))
  IN ForWords(m1, 0, B.nrows - 1, LAMBDA m, i : StackRow(m, C, A.nrows + i, B, i))

(* mzd_submatrix(S, M, lowr, lowc, highr, highc), S exactly (highr-lowr) x (highc-lowc) *)
SubmatrixRow(mem, S, M, i, x, lowc, ncols) ==
  IF lowc % W = 0
  THEN LET sw == lowc \div W  full == ncols \div W
           m1 == ForWords(mem, 0, full - 1, LAMBDA m, j : Put(m, Addr(S, i, j), m[Addr(M, x, sw + j)]))
       IN IF ncols % W # 0
          THEN LET mask == LeftMask(ncols % W)
                   temp == AndW(m1[Addr(M, x, sw + full)], mask)
               IN Put(m1, Addr(S, i, full), AndW(m1[Addr(S, i, full)], NotW(mask)) \cup temp)
          ELSE m1
  ELSE LET nfull == (ncols - 1) \div W      \* words written whole by the loop "for (j = 0; j + W < ncols; j += W)"
           m1 == ForWords(mem, 0, nfull - 1, LAMBDA m, j : Put(m, Addr(S, i, j), ReadBits(m, M, x, lowc + j * W, W)))
           j == nfull * W
           w0 == AndW(m1[Addr(S, i, nfull)], NotW(HighMask(S)))
       IN Put(m1, Addr(S, i, nfull), w0 \cup AndW(ReadBits(m1, M, x, lowc + j, ncols - j), HighMask(S)))
MzdSubmatrix(mem, S, M, lowr, lowc, highr, highc) ==
  ForWords(mem, 0, highr - lowr - 1, LAMBDA m, i : SubmatrixRow(m, S, M, i, lowr + i, lowc, highc - lowc))

(* mzd_set_ui(A, value) *)
SetUi(mem, A, value) ==
  LET last == Width(A) - 1
      m1 == ForWords(mem, 0, A.nrows - 1, LAMBDA m, i :
               LET m0 == ForWords(m, 0, last - 1, LAMBDA mm, j : Put(mm, Addr(A, i, j), {}))
               IN Put(m0, Addr(A, i, last), AndW(m0[Addr(A, i, last)], NotW(HighMask(A)))))
  IN IF value % 2 = 0 THEN m1
     ELSE ForWords(m1, 0, Min({A.nrows, A.ncols}) - 1, LAMBDA m, i : WriteBit(m, A, i, i, 1))

(* _mzd_add(C, A, B) word loop: C = A + B on the common width, last word merged under C's mask *)
AddRow(mem, C, A, B, i) ==
  LET last == Width(C) - 1
      m1 == ForWords(mem, 0, last - 1, LAMBDA m, j : Put(m, Addr(C, i, j), XorW(mem[Addr(A, i, j)], mem[Addr(B, i, j)])))
      s == XorW(mem[Addr(A, i, last)], mem[Addr(B, i, last)])
  IN Put(m1, Addr(C, i, last), AndW(m1[Addr(C, i, last)], NotW(HighMask(C))) \cup AndW(s, HighMask(C)))
MzdAdd(mem, C, A, B) == ForWords(mem, 0, C.nrows - 1, LAMBDA m, i : AddRow(m, C, A, B, i))

(* mzd_col_swap_in_rows(M, cola, colb, start_row, stop_row) *)
ColSwapRow(mem, M, i, cola, colb) ==
  LET aw == cola \div W  bw == colb \div W  ab == cola % W  bb == colb % W
      maxb == IF ab > bb THEN ab ELSE bb
      minb == ab + bb - maxb
      offset == maxb - minb
      mask == {minb}
  IN IF aw = bw
     THEN LET x == mem[Addr(M, i, aw)]
              v == AndW(XorW(x, ShrW(x, offset)), mask)
          IN Put(mem, Addr(M, i, aw), XorW(x, v \cup ShlW(v, offset)))
     ELSE LET minw == IF minb = ab THEN aw ELSE bw
              maxw == IF minb = ab THEN bw ELSE aw
              v == AndW(XorW(mem[Addr(M, i, minw)], ShrW(mem[Addr(M, i, maxw)], offset)), mask)
              m1 == Put(mem, Addr(M, i, minw), XorW(mem[Addr(M, i, minw)], v))
          IN Put(m1, Addr(M, i, maxw), XorW(m1[Addr(M, i, maxw)], ShlW(v, offset)))
ColSwapInRows(mem, M, cola, colb, r0, r1) ==
  IF cola = colb \/ r1 <= r0 THEN mem ELSE ForWords(mem, r0, r1 - 1, LAMBDA m, i : ColSwapRow(m, M, i, cola, colb))

(* _mzd_compress_l(A, r1, n1, r2) (m4ri/mzp.c, as repaired by the fix for finding F17) *)
RECURSIVE CompressClear(_, _, _, _, _)
CompressClear(mem, A, i, j, stop) ==
  IF j >= stop THEN mem
  ELSE LET len == Min({W - (j % W), stop - j}) IN CompressClear(ClearBits(mem, A, i, j, len), A, i, j + len, stop)
RECURSIVE CompressWords(_, _, _, _, _, _, _)
CompressWords(mem, A, i, j, block, rest, lim) ==       \* the whole-word loop: j + W <= r1 + r2
  IF j + W > lim THEN [mem |-> mem, j |-> j]
  ELSE LET tmp == IF rest % W = 0 THEN mem[Addr(A, i, block)]
                  ELSE ShrW(mem[Addr(A, i, block)], rest) \cup ShlW(mem[Addr(A, i, block + 1)], W - rest)
       IN CompressWords(Put(mem, Addr(A, i, j \div W), tmp), A, i, j + W, block + 1, rest, lim)
CompressRow(mem, A, i, r1, n1, r2, capped) ==
  LET rest == W - (r1 % W)
      tmp == ReadBits(mem, A, i, n1, rest)
      m1 == XorBits(ClearBits(mem, A, i, r1, rest), A, i, r1, rest, tmp)
      j1 == r1 + rest
      lw == CompressWords(m1, A, i, j1, (n1 + j1 - r1) \div W, rest, r1 + r2)
      m2 == IF lw.j < r1 + r2
            THEN LET t2 == ReadBits(lw.mem, A, i, n1 + lw.j - r1, r1 + r2 - lw.j)
                 IN XorBits(ClearBits(lw.mem, A, i, lw.j, r1 + r2 - lw.j), A, i, lw.j, r1 + r2 - lw.j, t2)
            ELSE lw.mem
      wend == ((n1 + r2 + W - 1) \div W) * W
      stop == IF capped THEN Min({A.ncols, wend}) ELSE wend      \* not capped: the pinned tree (finding F17)
  IN CompressClear(m2, A, i, r1 + r2, stop)
RECURSIVE CompressSwaps(_, _, _, _, _, _)
CompressSwaps(mem, A, i, j, r1, r2) ==
  IF i >= r1 + r2 THEN mem ELSE CompressSwaps(ColSwapInRows(mem, A, i, j, i, r1 + r2), A, i + 1, j + 1, r1, r2)
WCompressLG(mem, A, r1, n1, r2, capped) ==
  IF r1 = n1 THEN mem
  ELSE LET m1 == CompressSwaps(mem, A, r1, n1, r1, r2)
       IN ForWords(m1, r1 + r2, A.nrows - 1, LAMBDA m, i : CompressRow(m, A, i, r1, n1, r2, capped))
WCompressL(mem, A, r1, n1, r2) == WCompressLG(mem, A, r1, n1, r2, TRUE)
WCompressLOld(mem, A, r1, n1, r2) == WCompressLG(mem, A, r1, n1, r2, FALSE)
\* every address touched by the row part lies in the row (reads of the first chunk: the word of column n1 only,
\* as rest <= W bits starting at a word boundary never spill)

(* _mzd_apply_p_right_even(A, P, start_row, start_col = 0, notrans) (m4ri/mzp.c): the column permutation as an explicit  *)
(* array, a write mask of the fixed points (plus the bits beyond the last column), every row copied to a scratch row and *)
(* cleared under the mask, then per block of W columns below `length` the moved bits gathered from the scratch row.        *)
\* P: sequence of 0-based values (LAPACK swap form), 1-based indexing as everywhere
PermArray(n, P, notrans) ==
  LET length == Min({Len(P), n})
      id == [c \in 0 .. n - 1 |-> c]
      sw(f, i) == LET t == f[i] IN [f EXCEPT ![i] = f[P[i + 1]], ![P[i + 1]] = t]
      asc[i \in 0 .. length] == IF i = 0 THEN id ELSE sw(asc[i - 1], i - 1)                       \* trans: i = 0 .. length-1
      desc[i \in 0 .. length] == IF i = 0 THEN id ELSE sw(desc[i - 1], length - i)                \* notrans: length-1 down to 0
  IN IF notrans THEN desc[length] ELSE asc[length]
ApplyPRightEven(mem, A, P, notrans, start_row) ==
  IF A.nrows - start_row <= 0 THEN mem ELSE
  LET n == A.ncols  length == Min({Len(P), n})  width == Width(A)
      perm == PermArray(n, P, notrans)
      wm0 == [j \in 0 .. width - 1 |-> {k \in Bits : j * W + k < n /\ perm[j * W + k] = j * W + k}]
      wmask == [wm0 EXCEPT ![width - 1] = wm0[width - 1] \cup NotW(HighMask(A))]
      rowupd(m, r) ==
        LET brow == [j \in 0 .. width - 1 |-> m[Addr(A, r, j)]]                                   \* the scratch copy of the row
            cleared == ForWords(m, 0, width - 1, LAMBDA mm, j : Put(mm, Addr(A, r, j), AndW(mm[Addr(A, r, j)], wmask[j])))
            blocks == {b \in 0 .. width - 1 : b * W < length /\ wmask[b] # Bits}
            gather(b) == {k \in 0 .. Min({W, length - b * W}) - 1 : (perm[b * W + k] % W) \in brow[perm[b * W + k] \div W]}
        IN FoldLeft(LAMBDA mm, b : IF b \in blocks THEN Put(mm, Addr(A, r, b), mm[Addr(A, r, b)] \cup gather(b)) ELSE mm,
                    cleared, [x \in 1 .. width |-> x - 1])
  IN ForWords(mem, start_row, A.nrows - 1, rowupd)

(* observers: read under the mask *)
WIsZero(mem, A) ==
  \A i \in 0 .. A.nrows - 1 :
     /\ \A j \in 0 .. Width(A) - 2 : mem[Addr(A, i, j)] = {}
     /\ AndW(mem[Addr(A, i, Width(A) - 1)], HighMask(A)) = {}
WFirstZeroRow(mem, A) ==
  LET nz(i) == (\E j \in 0 .. Width(A) - 2 : mem[Addr(A, i, j)] # {}) \/ AndW(mem[Addr(A, i, Width(A) - 1)], HighMask(A)) # {}
      S == {i \in 0 .. A.nrows - 1 : nz(i)}
  IN IF S = {} THEN 0 ELSE Max(S) + 1
WEqual(mem, A, B) ==
  /\ A.nrows = B.nrows /\ A.ncols = B.ncols
  /\ \A i \in 0 .. A.nrows - 1 :
        /\ \A j \in 0 .. Width(A) - 2 : mem[Addr(A, i, j)] = mem[Addr(B, i, j)]
        /\ AndW(XorW(mem[Addr(A, i, Width(A) - 1)], mem[Addr(B, i, Width(A) - 1)]), HighMask(A)) = {}
=============================================================================
