--------------------------------- MODULE DJB ---------------------------------
(***************************************************************************)
(* djb_compile / djb_apply_mzd (m4ri/djb.c): Bernstein's "optimizing        *)
(* linear maps mod 2".  The compiler repeatedly takes a row that is maximal *)
(* in the reverse-lexicographic order (a heap in the code; here ANY maximal *)
(* row, so every tie-breaking of the heap is covered); if the next maximal  *)
(* row shares its leading one the two rows are added and a target-target    *)
(* instruction is emitted, otherwise the leading bit is cleared and a       *)
(* source-target instruction is emitted.  Applying the instructions in      *)
(* reverse order to a zeroed W must give W = A*V.                           *)
(* MC_DJB checks this for all matrices up to 3x4 / 4x3, V = identity.       *)
(***************************************************************************)
EXTENDS GF2

CONSTANTS MaxM, MaxN
VARIABLES A0, S, n, prog, done
vars == <<A0, S, n, prog, done>>

AllMats(m, k) == {Mat(m, k, f) : f \in [0 .. m - 1 -> SUBSET (0 .. k - 1)]}
\* row a >= row b in the reverse-lexicographic order: compare from the highest column down
RevGeq(a, b) == a = b \/ SetMax(Xor(a, b)) \in a
Maximal(rows, cand) == {i \in cand : \A j \in cand : RevGeq(rows[i], rows[j])}

Init == /\ \E m \in 1 .. MaxM, k \in 1 .. MaxN : A0 \in AllMats(m, k)
        /\ S = A0.r /\ n = A0.n /\ prog = << >> /\ done = FALSE

m == A0.m
All == 0 .. m - 1
Step ==
  /\ ~done /\ n > 0
  /\ \E t \in Maximal(S, All) :                                   \* heap_front
       IF (n - 1) \notin S[t] THEN n' = n - 1 /\ UNCHANGED <<S, prog>>
       ELSE \E f \in (IF m >= 2 THEN Maximal(S, All \ {t}) ELSE {t}) :      \* the front after popping t
              IF m >= 2 /\ (n - 1) \in S[f]
              THEN /\ S' = [S EXCEPT ![t] = Xor(S[t], S[f])]      \* mzd_row_add(A, front, temp): temp += front
                   /\ prog' = Append(prog, [target |-> t, source |-> f, typ |-> "target"])
                   /\ UNCHANGED n
              ELSE /\ S' = [S EXCEPT ![t] = S[t] \ {n - 1}]
                   /\ prog' = Append(prog, [target |-> t, source |-> n - 1, typ |-> "source"])
                   /\ UNCHANGED n
  /\ UNCHANGED <<A0, done>>
Finish == ~done /\ n = 0 /\ done' = TRUE /\ UNCHANGED <<A0, S, n, prog>>
Next == Step \/ Finish
Spec == Init /\ [][Next]_vars

\* djb_apply_mzd: instructions in reverse order, W starts as zero
RECURSIVE ApplyProg(_, _, _, _)
ApplyProg(W, V, p, i) ==
  IF i = 0 THEN W
  ELSE LET ins == p[i]
           add == IF ins.typ = "source" THEN V[ins.source] ELSE W[ins.source]
       IN ApplyProg([W EXCEPT ![ins.target] = Xor(W[ins.target], add)], V, p, i - 1)
\* with V = identity (k x k) the result must be A0 itself
DjbOK == done => ApplyProg([i \in All |-> {}], Id(A0.n).r, prog, Len(prog)) = A0.r
\* the compiler terminates with all rows used up
Exhausted == done => \A i \in All : S[i] = {}
=============================================================================
