-------------------------------- MODULE TRSM --------------------------------
(***************************************************************************)
(* Implementation-shaped model of the four triangular solves of            *)
(* m4ri/triangular.c (C04): the word-aligned recursive split               *)
(* nb1 = (((n-1)/W + 1) >> 1) * W, the order of the two recursive solves    *)
(* and the Schur update in each variant, and the bitwise substitution of    *)
(* the one-word base case of the left variants.  The middle regime (table   *)
(* based / inversion based, entered for n <= BLOCK) is represented by the   *)
(* specification's solution, so every depth of the recursion follows by     *)
(* induction.  Only the named triangle of T is read: the model takes T with *)
(* arbitrary content in the opposite triangle.                              *)
(***************************************************************************)
EXTENDS GF2

CONSTANTS WB, BLOCK       \* word size, __M4RI_MUL_BLOCKSIZE (scaled)

Split(d) == ((((d - 1) \div WB) + 1) \div 2) * WB

\* exact solutions by substitution (the specification): unit diagonal, named triangle only
SolveLowerLeft(T, B) ==           \* X with UnitLower(T) * X = B
  LET step(X, i) == [X EXCEPT ![i] = Xor(X[i], XorRows({k \in T.r[i] : k < i}, X))]
      F[i \in 0 .. B.m] == IF i = 0 THEN B.r ELSE step(F[i - 1], i - 1)
  IN Mat(B.m, B.n, F[B.m])
SolveUpperLeft(T, B) ==           \* X with UnitUpper(T) * X = B, rows bottom to top
  LET step(X, i) == [X EXCEPT ![i] = Xor(X[i], XorRows({k \in T.r[i] : k > i}, X))]
      F[j \in 0 .. B.m] == IF j = 0 THEN B.r ELSE step(F[j - 1], B.m - j)
  IN Mat(B.m, B.n, F[B.m])
\* right variants through transposition: X T = B  <=>  T^t X^t = B^t
SolveUpperRight(T, B) == Transpose(SolveLowerLeft(Transpose(T), Transpose(B)))
SolveLowerRight(T, B) == Transpose(SolveUpperLeft(Transpose(T), Transpose(B)))

\* ---- the table-based middle regime (triangular_russian.c): blocks of kk = nt*k rows are solved by substitution inside
\* the block (_mzd_trsm_*_left_submatrix), then every row beyond the block receives the combination of the block's rows
\* selected by its kk bits of T in the block's columns (nt table look-ups); the rest is handled k rows at a time, the
\* last chunk with what is left
AddRows(X, j, S) == [X EXCEPT ![j] = Xor(X[j], XorRows(S, X))]
LowerSub(T, X, s, k) ==            \* rows s .. s+k-1, forward
  LET F[i \in 0 .. k] == IF i = 0 THEN X ELSE AddRows(F[i - 1], s + i - 1, {c \in T.r[s + i - 1] : c >= s /\ c < s + i - 1})
  IN F[k]
UpperSub(T, X, s, k) ==            \* rows s+k-1 down to s, backward (each row receives the rows BELOW it inside the block)
  LET F[i \in 0 .. k] == IF i = 0 THEN X ELSE AddRows(F[i - 1], s + k - i, {c \in T.r[s + k - i] : c > s + k - i /\ c < s + k})
  IN F[k]
RECURSIVE LowerRussianLoop(_, _, _, _, _, _, _)
LowerRussianLoop(T, X, n, i, k, kk, tail) ==
  IF ~tail /\ i < n - kk
  THEN LET X1 == LowerSub(T, X, i, kk)
           X2 == [j \in DOMAIN X1 |-> IF j >= i + kk THEN Xor(X1[j], XorRows({c \in T.r[j] : c >= i /\ c < i + kk}, X1)) ELSE X1[j]]
       IN LowerRussianLoop(T, X2, n, i + kk, k, kk, FALSE)
  ELSE IF i >= n THEN X
  ELSE LET k1 == IF i > n - k THEN n - i ELSE k
           X1 == LowerSub(T, X, i, k1)
           X2 == [j \in DOMAIN X1 |-> IF j >= i + k1 THEN Xor(X1[j], XorRows({c \in T.r[j] : c >= i /\ c < i + k1}, X1)) ELSE X1[j]]
       IN LowerRussianLoop(T, X2, n, i + k1, k1, kk, TRUE)
LowerLeftRussian(T, B, k, nt) == Mat(B.m, B.n, LowerRussianLoop(T, B.r, B.m, 0, k, nt * k, FALSE))
RECURSIVE UpperRussianLoop(_, _, _, _, _, _, _)
UpperRussianLoop(T, X, n, i, k, kk, tail) ==
  IF ~tail /\ i < n - kk
  THEN LET s == n - i - kk
           X1 == UpperSub(T, X, s, kk)
           X2 == [j \in DOMAIN X1 |-> IF j < s THEN Xor(X1[j], XorRows({c \in T.r[j] : c >= s /\ c < s + kk}, X1)) ELSE X1[j]]
       IN UpperRussianLoop(T, X2, n, i + kk, k, kk, FALSE)
  ELSE IF i >= n THEN X
  ELSE LET k1 == IF i > n - k THEN n - i ELSE k
           s == n - i - k1
           X1 == UpperSub(T, X, s, k1)
           X2 == [j \in DOMAIN X1 |-> IF j < s THEN Xor(X1[j], XorRows({c \in T.r[j] : c >= s /\ c < s + k1}, X1)) ELSE X1[j]]
       IN UpperRussianLoop(T, X2, n, i + k1, k1, kk, TRUE)
UpperLeftRussian(T, B, k, nt) == Mat(B.m, B.n, UpperRussianLoop(T, B.r, B.m, 0, k, nt * k, FALSE))

\* ---- the recursions of triangular.c ------------------------------------------------
RECURSIVE UpperRight(_, _), LowerRight(_, _), LowerLeft(_, _), UpperLeft(_, _)
UpperRight(U, B) ==               \* X U = B
  LET n == B.n IN
  IF n <= BLOCK THEN SolveUpperRight(U, B)
  ELSE LET n1 == Split(n)
           B0 == Sub(B, 0, 0, B.m, n1)   B1 == Sub(B, 0, n1, B.m, n - n1)
           U00 == Sub(U, 0, 0, n1, n1)   U01 == Sub(U, 0, n1, n1, n - n1)   U11 == Sub(U, n1, n1, n - n1, n - n1)
           X0 == UpperRight(U00, B0)
           X1 == UpperRight(U11, Add(B1, Mul(X0, U01)))
       IN Concat(X0, X1)
LowerRight(L, B) ==               \* X L = B
  LET n == B.n IN
  IF n <= WB THEN SolveLowerRight(L, B)
  ELSE LET n1 == Split(n)
           B0 == Sub(B, 0, 0, B.m, n1)   B1 == Sub(B, 0, n1, B.m, n - n1)
           L00 == Sub(L, 0, 0, n1, n1)   L10 == Sub(L, n1, 0, n - n1, n1)   L11 == Sub(L, n1, n1, n - n1, n - n1)
           X1 == LowerRight(L11, B1)
           X0 == LowerRight(L00, Add(B0, Mul(X1, L10)))
       IN Concat(X0, X1)
\* one-word base case of the left variants: row i accumulates the rows k selected by the bits of T's row
BaseLowerLeft(L, B) ==
  LET step(X, i) == [X EXCEPT ![i] = FoldSet(LAMBDA k, acc : Xor(acc, X[k]), X[i], {k \in L.r[i] : k < i})]
      F[i \in 0 .. B.m] == IF i = 0 THEN B.r ELSE step(F[i - 1], i - 1)
  IN Mat(B.m, B.n, F[B.m])
BaseUpperLeft(U, B) ==
  LET step(X, i) == [X EXCEPT ![i] = FoldSet(LAMBDA k, acc : Xor(acc, X[k]), X[i], {k \in U.r[i] : k > i})]
      F[j \in 0 .. B.m] == IF j = 0 THEN B.r ELSE step(F[j - 1], B.m - j)
  IN Mat(B.m, B.n, F[B.m])
LowerLeft(L, B) ==                \* L X = B
  LET m == B.m IN
  IF m <= WB THEN BaseLowerLeft(L, B)
  ELSE IF m <= BLOCK THEN SolveLowerLeft(L, B)
  ELSE LET m1 == Split(m)
           B0 == Sub(B, 0, 0, m1, B.n)   B1 == Sub(B, m1, 0, m - m1, B.n)
           L00 == Sub(L, 0, 0, m1, m1)   L10 == Sub(L, m1, 0, m - m1, m1)   L11 == Sub(L, m1, m1, m - m1, m - m1)
           X0 == LowerLeft(L00, B0)
           X1 == LowerLeft(L11, Add(B1, Mul(L10, X0)))
       IN Stack(X0, X1)
UpperLeft(U, B) ==                \* U X = B
  LET m == B.m IN
  IF m <= WB THEN BaseUpperLeft(U, B)
  ELSE IF m <= BLOCK THEN SolveUpperLeft(U, B)
  ELSE LET m1 == Split(m)
           B0 == Sub(B, 0, 0, m1, B.n)   B1 == Sub(B, m1, 0, m - m1, B.n)
           U00 == Sub(U, 0, 0, m1, m1)   U01 == Sub(U, 0, m1, m1, m - m1)   U11 == Sub(U, m1, m1, m - m1, m - m1)
           X1 == UpperLeft(U11, B1)
           X0 == UpperLeft(U00, Add(B0, Mul(U01, X1)))
       IN Stack(X0, X1)
=============================================================================
