----------------------------- MODULE BitKernels -----------------------------
(***************************************************************************)
(* Word-level bit kernels of m4ri/misc.h and m4ri/parity.h (C19) over words *)
(* modelled as subsets of 0..WB-1 (bit b set <=> b in the set).              *)
(***************************************************************************)
EXTENDS Naturals, Integers, FiniteSets, FiniteSetsExt, Sequences

WB == 64   \* bits per word
\* documented ranges: n = 0 and n = WB both give the whole word for the left mask
LeftMask(n) == IF n % WB = 0 THEN 0 .. WB - 1 ELSE 0 .. n - 1
RightMask(n) == (WB - n) .. (WB - 1)                  \* 0 < n <= WB
MiddleMask(n, off) == off .. (off + n - 1)           \* 0 < n <= WB - off
\* parity of each of 64 words: buf is a set of positions w*WB + b
Parity64(buf) == {w \in 0 .. WB - 1 : Cardinality({b \in 0 .. WB - 1 : w * WB + b \in buf}) % 2 = 1}
SwapBits(v) == {WB - 1 - b : b \in v}
\* Q is a sequence of positions (Q[i+1] = position of bit i), base subtracted
Spread(from, Q, len, base) == {Q[i + 1] - base : i \in {x \in from : x < len}}
Shrink(from, Q, len, base) == {i \in 0 .. len - 1 : (Q[i + 1] - base) \in from}
LSBI(a) == IF a = {} THEN WB ELSE CHOOSE x \in a : \A y \in a : x <= y
LesserLSB(a, b) == IF LSBI(a) < LSBI(b) THEN 1 ELSE 0
=============================================================================
