-------------------------------- MODULE Solve --------------------------------
(***************************************************************************)
(* Implementation-shaped models of the routines built on a PLUQ            *)
(* factorisation (m4ri/solve.c, C06/C07) and of the recursive inversion of  *)
(* a unit upper triangular matrix (mzd_trtri_upper, C05):                   *)
(*   _mzd_pluq_solve_left : B := P^T B; forward solve with L on the first r *)
(*      rows; inconsistency test (padding rows of B non-zero, or            *)
(*      H*Y1 + Y2 # 0 for the rows r..m-1); back solve with U; clear the    *)
(*      rows below r; B := Q^T B.                                           *)
(*   mzd_kernel_left_pluq : K = Q^T * [ U11^{-1} U12 ; I ].                 *)
(*   mzd_trtri_upper      : split at a word boundary, two TRSMs on the      *)
(*      off-diagonal block, recursion on the diagonal blocks.               *)
(* The factorisation is produced by a deterministic instance (first         *)
(* admissible pivot row) of the PLE machine of alg/PLE.tla, in the compact  *)
(* PLUQ storage of the library.  OLDPAD = TRUE reproduces the pinned tree's *)
(* handling of the padding rows (finding F03) as a witness.                 *)
(***************************************************************************)
EXTENDS Ops

CONSTANT OLDPAD

\* ---- deterministic PLUQ in the library's storage convention -------------------------------
RECURSIVE PluqLoop(_, _, _, _, _, _, _)
PluqLoop(S, Lm, P, Q, r, m, n) ==
  LET cands == UNION {{x \in S[i] : x >= r} : i \in r .. m - 1} IN
  IF r = m \/ cands = {} THEN [S |-> S, Lm |-> Lm, P |-> P, Q |-> Q, r |-> r]
  ELSE LET c == SetMin(cands)
           i == SetMin({x \in r .. m - 1 : c \in S[x]})
           S0 == SwapF(S, r, i)
           S1 == [j \in 0 .. m - 1 |-> IF j >= r /\ ((r \in S0[j]) # (c \in S0[j])) THEN Xor(S0[j], {r, c}) ELSE S0[j]]
           L1 == SwapF(Lm, r, i)
           below == {j \in r + 1 .. m - 1 : r \in S1[j]}
           S2 == TLCEval([j \in 0 .. m - 1 |-> IF j \in below THEN Xor(S1[j], S1[r]) ELSE S1[j]])
           L2 == TLCEval([j \in 0 .. m - 1 |-> IF j \in below THEN L1[j] \cup {r} ELSE L1[j]])
       IN PluqLoop(S2, L2, Append(P, i), Append(Q, c), r + 1, m, n)
Pluq(A) ==
  LET f == PluqLoop(A.r, [i \in 0 .. A.m - 1 |-> {}], << >>, << >>, 0, A.m, A.n)
      r == f.r
      P == f.P \o [i \in 1 .. A.m - r |-> r + i - 1]
      Q == f.Q \o [i \in 1 .. A.n - r |-> r + i - 1]
      compactPLE == Mat(A.m, A.n, [i \in 0 .. A.m - 1 |-> IF i < r THEN f.Lm[i] \cup f.S[i] ELSE f.Lm[i]])
  IN [LU |-> ApplyPRightTransTriSem(compactPLE, Q), P |-> P, Q |-> Q, r |-> r]      \* PLUQ = PLE + triangular swaps

\* ---- _mzd_pluq_solve_left(A=LU, rank, P, Q, B, inconsistency_check = 1) ---------------------
\* A is m x n, B has max(m, n) rows; returns [B, ret]
PluqSolveLeft(F, m, n, B) ==
  LET r == F.r
      B1 == ApplyPLeft(B, F.P)                                           \* mzd_apply_p_left(B, P)
      LUtop == Sub(F.LU, 0, 0, r, r)
      Y1 == Sub(B1, 0, 0, r, B.n)
      Y1s == IF r = 0 THEN Y1 ELSE
             LET step(X, i) == [X EXCEPT ![i] = Xor(X[i], XorRows({k \in LUtop.r[i] : k < i}, X))]
                 G[i \in 0 .. r] == IF i = 0 THEN Y1.r ELSE step(G[i - 1], i - 1)
             IN Mat(r, B.n, G[r])                                        \* L Y1' = Y1
      \* inconsistency test
      padNonZero == m < B.m /\ \E i \in m .. B.m - 1 : B1.r[i] # {}
      H == Sub(F.LU, r, 0, m - r, r)
      Y2 == Sub(B1, r, 0, m - r, B.n)
      resid == Add(Y2, Mul(H, Y1s))
      inconsistent == (~OLDPAD /\ padNonZero) \/ ~IsZero(resid)
      \* back solve with U
      X1 == IF r = 0 THEN Y1s ELSE
            LET step(X, i) == [X EXCEPT ![i] = Xor(X[i], XorRows({k \in LUtop.r[i] : k > i}, X))]
                G[j \in 0 .. r] == IF j = 0 THEN Y1s.r ELSE step(G[j - 1], r - j)
            IN Mat(r, B.n, G[r])
      B2 == Mat(B.m, B.n, [i \in 0 .. B.m - 1 |-> IF i < r THEN X1.r[i] ELSE {}])   \* rows below the rank are zero
      B3 == ApplyPLeftTrans(B2, F.Q)                                     \* mzd_apply_p_left_trans(B, Q)
  IN [B |-> B3, ret |-> IF inconsistent THEN -1 ELSE 0]

SolveLeft(A, B) == PluqSolveLeft(Pluq(A), A.m, A.n, B)

\* ---- mzd_kernel_left_pluq --------------------------------------------------------------------
\* F = the factorisation [LU, P, Q, r] (of the library's own PLUQ when the model is bound to recorded calls)
KernelFrom(F, n) ==
  LET r == F.r IN
  IF r = n THEN [has |-> FALSE, K |-> Zero(0, 0)]
  ELSE LET U == Sub(F.LU, 0, 0, r, r)
           RU0 == Sub(F.LU, 0, r, r, n - r)                              \* copy of U12
           RU == IF r = 0 THEN RU0 ELSE
                 LET step(X, i) == [X EXCEPT ![i] = Xor(X[i], XorRows({k \in U.r[i] : k > i}, X))]
                     G[j \in 0 .. r] == IF j = 0 THEN RU0.r ELSE step(G[j - 1], r - j)
                 IN Mat(r, n - r, G[r])                                  \* mzd_trsm_upper_left(U, RU)
           R == Mat(n, n - r, [i \in 0 .. n - 1 |-> IF i < r THEN RU.r[i] ELSE {i - r}])
       IN [has |-> TRUE, K |-> ApplyPLeftTrans(R, F.Q)]
KernelLeftPluq(A) == KernelFrom(Pluq(A), A.n)

\* ---- mzd_trtri_upper: recursion of triangular.c with threshold LIMIT (n*n < LIMIT -> direct) ----
RECURSIVE Trtri(_, _, _)
InvUnitUpperDirect(U) ==       \* the specification's inverse: solve U X = I
  LET n == U.n
      step(X, i) == [X EXCEPT ![i] = Xor(X[i], XorRows({k \in U.r[i] : k > i}, X))]
      G[j \in 0 .. n] == IF j = 0 THEN Id(n).r ELSE step(G[j - 1], n - j)
  IN Mat(n, n, G[n])
Trtri(U, limit, wb) ==
  LET n == U.n IN
  IF n * n < limit THEN InvUnitUpperDirect(U)
  ELSE LET n2 == ((((n - 1) \div wb) + 1) \div 2) * wb
           U00 == Sub(U, 0, 0, n2, n2)  U01 == Sub(U, 0, n2, n2, n - n2)  U11 == Sub(U, n2, n2, n - n2, n - n2)
           \* _mzd_trsm_upper_left(U00, U01); _mzd_trsm_upper_right(U11, U01)
           X == Mul(InvUnitUpperDirect(U00), U01)
           Y == Mul(X, InvUnitUpperDirect(U11))
           I00 == Trtri(U00, limit, wb)  I11 == Trtri(U11, limit, wb)
       IN Stack(Concat(I00, Y), Concat(Zero(n - n2, n2), I11))

\* ---- mzd_trtri_upper_russian(A, k): in-place inversion with NTT = 4 tables per block of 4k rows ---------------------
\* _mzd_trtri_upper_submatrix(A, pivot_r, elim_r, k): for the columns i of the k-block, every row j in elim_r .. i-1 that has
\* a one in column i receives row i from column i+1 on (the one in (j, i) stays: it is the entry of the inverse)
AddFromCol(R, j, i, n) == [R EXCEPT ![j] = Xor(R[j], {x \in R[i] : x >= i + 1})]
RECURSIVE SubRows(_, _, _, _, _)
SubRows(R, i, j, n, lim) == IF j >= lim THEN R ELSE SubRows(IF i \in R[j] /\ i + 1 < n THEN AddFromCol(R, j, i, n) ELSE R, i, j + 1, n, lim)
RECURSIVE SubBlock(_, _, _, _, _, _)
SubBlock(R, i, pivr, elimr, k, n) == IF i >= pivr + k THEN R ELSE SubBlock(SubRows(R, i, elimr, n, i), i + 1, pivr, elimr, k, n)
\* look-up of one table on a row above: v = the row's bits in the table's k columns; the row receives the combination of the
\* snapshot rows U_l (l in v; each from its diagonal column on) with the pattern v written into the table's columns ("fix")
TableStep(row, Usnap, c, k) ==
  LET v == {l \in 0 .. k - 1 : (c + l) \in row}
      comb == FoldSet(LAMBDA l, acc : Xor(acc, Usnap[l]), {}, v)
  IN Xor(row, Xor(comb, {c + l : l \in v}))
RECURSIVE TrtriRussianLoop(_, _, _, _, _)
TrtriRussianLoop(R, n, r, k, ntt) ==
  IF r + ntt * k <= n
  THEN LET \* the tables are built one after the other; table t is a snapshot taken after its own sub-block step
           F[t \in 0 .. ntt] == IF t = 0 THEN [R |-> R, U |-> << >>]
                                 ELSE LET R1 == SubBlock(F[t - 1].R, r + (t - 1) * k, r + (t - 1) * k, r, k, n)
                                          snap == [l \in 0 .. k - 1 |-> {x \in R1[r + (t - 1) * k + l] : x >= r + (t - 1) * k + l}]
                                      IN [R |-> R1, U |-> Append(F[t - 1].U, snap)]
           Rb == F[ntt].R
           G[t \in 0 .. ntt] == IF t = 0 THEN Rb
                                 ELSE TLCEval([j \in DOMAIN Rb |-> IF j < r THEN TableStep(G[t - 1][j], F[ntt].U[t], r + (t - 1) * k, k) ELSE G[t - 1][j]])
       IN TrtriRussianLoop(G[ntt], n, r + ntt * k, k, ntt)
  ELSE IF r >= n THEN R
  ELSE LET k1 == IF n - r < k THEN n - r ELSE k
           R1 == SubBlock(R, r, r, r, k1, n)
           snap == [l \in 0 .. k1 - 1 |-> {x \in R1[r + l] : x >= r + l}]
           R2 == TLCEval([j \in DOMAIN R1 |-> IF j < r THEN TableStep(R1[j], snap, r, k1) ELSE R1[j]])
       IN TrtriRussianLoop(R2, n, r + k1, k1, ntt)
TrtriRussian(U, k, ntt) == Mat(U.n, U.n, TrtriRussianLoop(U.r, U.n, 0, k, ntt))
=============================================================================
