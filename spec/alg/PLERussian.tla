---------------------------- MODULE PLERussian ----------------------------
(***************************************************************************)
(* Implementation-shaped model of _mzd_ple_russian (m4ri/ple_russian.c and  *)
(* ple_russian_template.h; C03), the base case of every PLE / PLUQ call.    *)
(* One iteration of the block loop = the steps of the code:                 *)
(*  1. _mzd_ple_submatrix on the WINDOW of the first `splitblock` words:    *)
(*     column by column, rows scanned from start_row + rank on, a row is    *)
(*     looked at only if its bits in the block are not all zero, then it is *)
(*     first brought up to date with the LAZY elimination bookkeeping       *)
(*     done[l] ("pivot l has been added to every row up to done[l]"),       *)
(*     pivot row swapped (inside the window only), P and Q recorded; the    *)
(*     finishing loop completes the rows up to done_row;                    *)
(*  2. _mzd_ple_a10: the same row swaps and the elimination among the pivot *)
(*     rows on the columns RIGHT of the window, driven by the multipliers   *)
(*     already stored in the pivot columns;                                 *)
(*  3. _mzd_ple_to_e: U = pivot rows from their pivot column on;            *)
(*  4. the no-pivot case (mzd_find_pivot, one elimination step by hand);    *)
(*  5. the choice of the number of tables and of their widths (_kk_setup),  *)
(*     the tables as maps from multiplier patterns (M) resp. from the       *)
(*     actual leading bits (E, full rank only) to combinations of U rows;   *)
(*  6. _mzd_ple_a11_N: rows between the pivots and done_row, columns right  *)
(*     of the window, looked up through M (defined on pivot patterns only); *)
(*  7. _mzd_process_rows_ple_N: the rows below done_row, table after table, *)
(*     looked up through E with the bits updated in between (B), the        *)
(*     multiplier pattern written in place ("fix");                         *)
(*  8. after the loop the compression of L (column swaps inside the pivot   *)
(*     rows from the diagonal down, the transposed application of Q to the  *)
(*     rows below the rank).                                                *)
(* The model also records whether an implicit precondition of a primitive   *)
(* is broken on the way (`ok`): mzd_row_add_offset with an offset beyond    *)
(* the last column, a look-up of M at a pattern that is not a set of pivot  *)
(* positions (its entry would be stale), E looked up without full rank.     *)
(* MC_PLERussian checks ok and Ops!PLEOK for all small matrices.            *)
(***************************************************************************)
EXTENDS Ops

CONSTANTS WB,    \* word size
          K,     \* the table parameter k (explicit; the heuristic for k = 0 only picks a value)
          NT,    \* __M4RI_PLE_NTABLES
          SB     \* the "+ 8 blocks" of the split (scaled)

WidthOf(n) == (n + WB - 1) \div WB
IdSeq(k) == [i \in 1 .. k |-> i - 1]
InRange(row, lo, hi) == {x \in row : x >= lo /\ x < hi}
\* row i += row src on the columns lo <= x < hi
AddRange(R, i, src, lo, hi) == [R EXCEPT ![i] = Xor(R[i], InRange(R[src], lo, hi))]
SwapRange(R, a, b, lo, hi) ==
  IF a = b THEN R
  ELSE [R EXCEPT ![a] = (R[a] \ InRange(R[a], lo, hi)) \cup InRange(R[b], lo, hi),
                 ![b] = (R[b] \ InRange(R[b], lo, hi)) \cup InRange(R[a], lo, hi)]

\* ---- 1. _mzd_ple_submatrix -----------------------------------------------------------------------
\* s = [R, P, Q, piv, done, rank, ok]; sr = start_row, sc = start_col, wc = number of columns of the window
AddOffsetOK(off, wc) == off < wc \/ (off = wc /\ wc % WB # 0)      \* otherwise the word loop starts beyond the row
RECURSIVE ClearBefore(_, _, _, _, _, _)
ClearBefore(s, i, sr, sc, wc, l) ==
  IF l >= s.rank THEN s
  ELSE IF s.done[l + 1] < i
       THEN LET pc == sc + s.piv[l + 1]
                hit == pc \in s.R[i]
            IN ClearBefore([s EXCEPT !.R = IF hit THEN AddRange(s.R, i, sr + l, pc + 1, wc) ELSE s.R,
                                     !.done[l + 1] = i,
                                     !.ok = s.ok /\ (hit => AddOffsetOK(pc + 1, wc))], i, sr, sc, wc, l + 1)
       ELSE ClearBefore(s, i, sr, sc, wc, l + 1)
RECURSIVE ScanRows(_, _, _, _, _, _, _)
ScanRows(s, i, stop, sr, sc, wc, cp) ==
  IF i >= stop THEN [s |-> s, found |-> FALSE, i |-> i]
  ELSE IF InRange(s.R[i], sc, sc + cp + 1) = {} THEN ScanRows(s, i + 1, stop, sr, sc, wc, cp)
  ELSE LET s1 == ClearBefore(s, i, sr, sc, wc, 0) IN
       IF (sc + cp) \in s1.R[i] THEN [s |-> s1, found |-> TRUE, i |-> i]
       ELSE ScanRows(s1, i + 1, stop, sr, sc, wc, cp)
RECURSIVE SubCols(_, _, _, _, _, _, _)
SubCols(s, cp, k, sr, stop, sc, wc) ==
  IF cp >= k THEN s
  ELSE LET f == ScanRows(s, sr + s.rank, stop, sr, sc, wc, cp) IN
       IF f.found
       THEN LET t == f.s  r == t.rank IN
            SubCols([t EXCEPT !.R = SwapRange(t.R, f.i, sr + r, 0, wc), !.P[sr + r + 1] = f.i, !.Q[sr + r + 1] = sc + cp,
                              !.piv = Append(t.piv, cp), !.done = Append(t.done, f.i), !.rank = r + 1],
                    cp + 1, k, sr, stop, sc, wc)
       ELSE SubCols(f.s, cp + 1, k, sr, stop, sc, wc)
RECURSIVE FinishRows(_, _, _, _, _, _, _)
FinishRows(s, c2, r2, donerow, sr, sc, wc) ==
  IF c2 >= s.rank THEN s
  ELSE LET pc == sc + s.piv[c2 + 1] IN
       IF ~(pc < wc - 1) THEN FinishRows(s, c2 + 1, IF c2 + 1 < s.rank THEN s.done[c2 + 2] + 1 ELSE 0, donerow, sr, sc, wc)
       ELSE IF r2 > donerow THEN FinishRows(s, c2 + 1, IF c2 + 1 < s.rank THEN s.done[c2 + 2] + 1 ELSE 0, donerow, sr, sc, wc)
       ELSE FinishRows(IF pc \in s.R[r2] THEN [s EXCEPT !.R = AddRange(s.R, r2, sr + c2, pc + 1, wc)] ELSE s,
                       c2, r2 + 1, donerow, sr, sc, wc)
Submatrix(R, P, Q, m, sr, sc, k, wc) ==
  LET s0 == [R |-> R, P |-> P, Q |-> Q, piv |-> << >>, done |-> << >>, rank |-> 0, ok |-> TRUE]
      s1 == SubCols(s0, 0, k, sr, m, sc, wc)
      donerow == IF s1.rank < k THEN m - 1 ELSE SetMax({s1.done[l] : l \in 1 .. s1.rank})
      s2 == IF s1.rank = 0 THEN s1 ELSE FinishRows(s1, 0, s1.done[1] + 1, donerow, sr, sc, wc)
  IN [s2 EXCEPT !.done = donerow]          \* .done now holds done_row

\* ---- 2. _mzd_ple_a10 ------------------------------------------------------------------------------
RECURSIVE A10Swaps(_, _, _, _, _, _)
A10Swaps(R, P, i, hi, ac, n) == IF i >= hi THEN R ELSE A10Swaps(SwapRange(R, i, P[i + 1], ac, n), P, i + 1, hi, ac, n)
A10(R, P, sr, sc, ac, n, knar, piv) ==
  IF ac >= n THEN R
  ELSE LET R1 == A10Swaps(R, P, sr, sr + knar, ac, n)
           rowupd(Rx, i) ==        \* i = 1 .. knar-1: the multipliers are read once, before the additions
             LET tmp == InRange(Rx[sr + i], sc, sc + piv[i + 1])
                 F[j \in 0 .. i] == IF j = 0 THEN Rx
                                    ELSE IF (sc + piv[j]) \in tmp THEN AddRange(F[j - 1], sr + i, sr + j - 1, ac, n) ELSE F[j - 1]
             IN F[i]
           G[i \in 0 .. knar - 1] == IF i = 0 THEN R1 ELSE rowupd(G[i - 1], i)
       IN IF knar = 0 THEN R1 ELSE G[knar - 1]

\* ---- 5. number of tables, their widths, the pivots they hold -------------------------------------------
NTab(kk, k) ==
  LET ok(t) == t <= NT /\ kk >= (t - 1) * k /\ kk >= t
      S == {t \in 2 .. 8 : ok(t)}
  IN IF S = {} THEN 1 ELSE SetMax(S)
TabWidth(kk, nt, t) == (kk \div nt) + (IF t < nt - 1 /\ (kk % nt) >= nt - 1 - t THEN 1 ELSE 0)     \* t = 0 .. nt-1
RECURSIVE TabLow(_, _, _)
TabLow(kk, nt, t) == IF t = 0 THEN 0 ELSE TabLow(kk, nt, t - 1) + TabWidth(kk, nt, t - 1)
\* the pivots (indices l = 0 .. knar-1) whose block-relative column lies in table t
TabPivots(piv, knar, kk, nt, t) == {l \in 0 .. knar - 1 : piv[l + 1] >= TabLow(kk, nt, t) /\ piv[l + 1] < TabLow(kk, nt, t) + TabWidth(kk, nt, t)}

\* U rows (step 3) and their combinations (the rows of the tables T)
URow(R, sr, sc, piv, l) == {x \in R[sr + l] : x >= sc + piv[l + 1]}
Combo(R, sr, sc, piv, S) == FoldSet(LAMBDA l, acc : Xor(acc, URow(R, sr, sc, piv, l)), {}, S)

\* ---- 6. _mzd_ple_a11_N: rows lo .. hi-1, columns >= ac, look-up through M ---------------------------------
A11(R, lo, hi, sr, sc, ac, n, kk, knar, piv) ==
  IF ac >= n THEN [R |-> R, ok |-> TRUE]
  ELSE LET pivcols == {sc + piv[l + 1] : l \in 0 .. knar - 1}
           rows == {i \in DOMAIN R : i >= lo /\ i < hi}
           pat(i) == {l \in 0 .. knar - 1 : (sc + piv[l + 1]) \in R[i]}
       IN [R |-> TLCEval([i \in DOMAIN R |-> IF i \in rows THEN Xor(R[i], InRange(Combo(R, sr, sc, piv, pat(i)), ac, n)) ELSE R[i]]),
           \* M is only defined on sets of pivot positions: the block bits of these rows must be such a set
           ok |-> \A i \in rows : InRange(R[i], sc, sc + kk) \subseteq pivcols]

\* ---- 7. _mzd_process_rows_ple_N: rows lo .. hi-1, all columns from the word of sc on, look-up through E ------
\* E of table t: the set p of pivots of the table such that the combination of their U rows has the leading bits v in
\* the table's columns lo .. hi-1.  Declaratively (the inverse of the map that make_table_ple tabulates) ...
EPatternDecl(v, R, sr, sc, piv, S, lo, hi) == CHOOSE q \in SUBSET S : InRange(Combo(R, sr, sc, piv, q), lo, hi) = v
\* ... and computed pivot by pivot (U restricted to the table's columns is unit upper triangular under full rank);
\* MC_PLERussian checks that the two agree (ELemma), the trace validator uses the second
RECURSIVE EPatternSeq(_, _, _, _, _, _, _, _)
EPatternSeq(res, R, sr, sc, piv, S, lo, hi) ==
  IF S = {} THEN {}
  ELSE LET l == SetMin(S) IN
       IF (sc + piv[l + 1]) \in res
       THEN {l} \cup EPatternSeq(Xor(res, InRange(URow(R, sr, sc, piv, l), lo, hi)), R, sr, sc, piv, S \ {l}, lo, hi)
       ELSE EPatternSeq(res, R, sr, sc, piv, S \ {l}, lo, hi)
RECURSIVE A2Row(_, _, _, _, _, _, _, _, _)
A2Row(row, R, sr, sc, piv, knar, kk, nt, t) ==
  IF t >= nt THEN row
  ELSE LET S == TabPivots(piv, knar, kk, nt, t)
           lo == sc + TabLow(kk, nt, t)  hi == lo + TabWidth(kk, nt, t)
           p == EPatternSeq(InRange(row, lo, hi), R, sr, sc, piv, S, lo, hi)
           \* T[x] after the "fix": the combination, with the pattern of the rows used written into the table's columns
           fixed == Xor(Combo(R, sr, sc, piv, p), {sc + piv[l + 1] : l \in p})
       IN A2Row(Xor(row, fixed), R, sr, sc, piv, knar, kk, nt, t + 1)
A2(R, lo, hi, sr, sc, piv, knar, kk, nt) ==
  TLCEval([i \in DOMAIN R |-> IF i >= lo /\ i < hi THEN A2Row(R[i], R, sr, sc, piv, knar, kk, nt, 0) ELSE R[i]])

\* mzd_find_pivot(A, r, c): the left-most column >= c with a one in a row >= r, the first such row
FindPivot(R, m, r, c) ==
  LET cols == UNION {{x \in R[i] : x >= c} : i \in r .. m - 1} IN
  IF cols = {} THEN [found |-> FALSE, r |-> 0, c |-> 0]
  ELSE LET cc == SetMin(cols) IN [found |-> TRUE, c |-> cc, r |-> SetMin({i \in r .. m - 1 : cc \in R[i]})]

\* ---- the block loop ---------------------------------------------------------------------------------------
RECURSIVE Loop(_, _, _, _, _, _, _, _, _)
Loop(R, P, Q, m, n, cr, cc, kk0, ok) ==
  IF ~(cc < n /\ cr < m) THEN [R |-> R, P |-> P, Q |-> Q, r |-> cr, ok |-> ok]
  ELSE
    LET kk == IF cc + kk0 > n THEN n - cc ELSE kk0
        width == WidthOf(n)
        splitblock == Min({Max({(cc + kk) \div WB + 1, (cc \div WB) + SB}), width})
        wc == IF width > splitblock THEN splitblock * WB ELSE n         \* columns of the window used by step 1
        ac == splitblock * WB                                           \* first column of steps 2 and 6 (addblock)
        s == Submatrix(R, P, Q, m, cr, cc, kk, wc)
        knar == s.rank
        donerow == s.done
        R2 == A10(s.R, s.P, cr, cc, IF splitblock = width THEN n ELSE ac, n, knar, s.piv)
    IN IF knar = 0
       THEN LET c1 == cc + kk
                f == FindPivot(R2, m, cr, c1)
            IN IF ~f.found THEN [R |-> R2, P |-> s.P, Q |-> s.Q, r |-> cr, ok |-> ok /\ s.ok]
               ELSE LET R3 == SwapF(R2, cr, f.r)
                        R4 == IF f.c + 1 < n
                              THEN TLCEval([l \in DOMAIN R3 |-> IF l > cr /\ f.c \in R3[l] THEN Xor(R3[l], {x \in R3[cr] : x > f.c}) ELSE R3[l]])
                              ELSE R3
                    IN Loop(R4, [s.P EXCEPT ![cr + 1] = f.r], [s.Q EXCEPT ![cr + 1] = f.c], m, n, cr + 1, f.c + 1, kk, ok /\ s.ok)
       ELSE LET nt == NTab(kk, K)
                a11 == A11(R2, cr + knar, donerow + 1, cr, cc, IF splitblock = width THEN n ELSE ac, n, kk, knar, s.piv)
                full == knar = kk
                R4 == IF donerow < m - 1 THEN A2(a11.R, donerow + 1, m, cr, cc, s.piv, knar, kk, nt) ELSE a11.R
            IN Loop(R4, s.P, s.Q, m, n, cr + knar, cc + kk, kk,
                    ok /\ s.ok /\ a11.ok /\ (donerow < m - 1 => full))

\* ---- 8. compressing L ---------------------------------------------------------------------------------------
RECURSIVE CompressPiv(_, _, _, _)
CompressPiv(A, Q, r, j) ==
  IF j >= r THEN A ELSE CompressPiv(IF Q[j + 1] > j THEN ColSwapRows(A, Q[j + 1], j, j, r) ELSE A, Q, r, j + 1)
PleRussian(A) ==
  LET res == Loop(A.r, IdSeq(A.m), IdSeq(A.n), A.m, A.n, 0, 0, NT * K, TRUE)
      r == res.r
      A1 == CompressPiv(Mat(A.m, A.n, res.R), res.Q, r, 0)
      Qbar == SubSeq(res.Q, 1, r)
      low == ApplyPRightTrans(Sub(A1, r, 0, A.m - r, A.n), Qbar)     \* mzd_apply_p_right_trans_even_capped(A, Qbar, r, 0)
  IN [A |-> IF r < A.m THEN Embed(A1, r, 0, low) ELSE A1, P |-> res.P, Q |-> res.Q, r |-> r, ok |-> res.ok]
=============================================================================
