-------------------------------- MODULE M4RM --------------------------------
(***************************************************************************)
(* Implementation-shaped model of the Method of Four Russians product       *)
(* (_mzd_mul_m4rm in m4ri/brilliantrussian.c, C01): lookup tables built by  *)
(* Gray-code order (mzd_make_table: T[i] = T[i-1] + B[r + inc[i-1]],        *)
(* L[ord[i]] = i), the block loop over kk = NT*k columns of A with NT        *)
(* tables per block, the first tail (whole k-blocks that do not fill a       *)
(* kk-block, one table each) and the second tail (the last a_nc % k          *)
(* columns), for clear and accumulate mode.  NT is __M4RI_M4RM_NTABLES.      *)
(***************************************************************************)
EXTENDS GF2, Gray

\* mzd_make_table(B, r, 0, k, T, L): rows of T in Gray-code order and the index table L
RECURSIVE TableRows(_, _, _, _, _)
TableRows(B, r, k, i, acc) ==     \* acc = <<T[0], ..., T[i-1]>>
  IF i = 2 ^ k THEN acc
  ELSE LET row == r + IncOf(i - 1, k)
           prev == acc[i]
           new == IF row < B.m THEN Xor(prev, B.r[row]) ELSE prev
       IN TableRows(B, r, k, i + 1, Append(acc, new))
MakeTable(B, r, k) ==
  LET T == TableRows(B, r, k, 1, << {} >>)
      L == [x \in 0 .. 2 ^ k - 1 |-> CHOOSE i \in 0 .. 2 ^ k - 1 : GrayCode(i, k) = x]
  IN [T |-> T, L |-> L]
Lookup(tab, x) == tab.T[tab.L[x] + 1]

\* the k bits of row j of A starting at column c, as a number (bit b = column c + b)
BitsAt(A, j, c, n) == LET S == {b \in 0 .. n - 1 : (c + b) \in A.r[j]} IN FoldSet(LAMBDA b, s : s + 2 ^ b, 0, S)

RECURSIVE BlockLoop(_, _, _, _, _, _, _)
BlockLoop(C, A, B, k, NT, i, end) ==
  IF i = end THEN C
  ELSE LET kk == NT * k
           tabs == [z \in 0 .. NT - 1 |-> MakeTable(B, kk * i + k * z, k)]
           C2 == [j \in 0 .. A.m - 1 |->
                    LET a == BitsAt(A, j, kk * i, kk) IN
                    FoldSet(LAMBDA z, acc : Xor(acc, Lookup(tabs[z], (a \div (2 ^ (z * k))) % (2 ^ k))), C[j], 0 .. NT - 1)]
       IN BlockLoop(C2, A, B, k, NT, i + 1, end)

RECURSIVE Tail1(_, _, _, _, _, _)
Tail1(C, A, B, k, i, stop) ==
  IF i >= stop THEN C
  ELSE LET tab == MakeTable(B, k * i, k)
           C2 == [j \in 0 .. A.m - 1 |-> Xor(C[j], Lookup(tab, BitsAt(A, j, k * i, k)))]
       IN Tail1(C2, A, B, k, i + 1, stop)

M4RMProduct(C0, A, B, k, NT, clear) ==
  LET kk == NT * k
      end == A.n \div kk
      Cs == IF clear THEN [j \in 0 .. A.m - 1 |-> {}] ELSE C0.r
      C1 == BlockLoop(Cs, A, B, k, NT, 0, end)
      C2 == IF A.n % kk # 0 THEN Tail1(C1, A, B, k, NT * end, A.n \div k) ELSE C1
      rem == A.n % k
      C3 == IF A.n % kk # 0 /\ rem # 0
            THEN LET tab == MakeTable(B, k * (A.n \div k), rem)
                 IN [j \in 0 .. A.m - 1 |-> Xor(C2[j], Lookup(tab, BitsAt(A, j, k * (A.n \div k), rem)))]
            ELSE C2
  IN Mat(A.m, B.n, C3)
=============================================================================
