------------------------------ MODULE Butterfly ------------------------------
(***************************************************************************)
(* The in-register transposition network of m4ri/mzd.c                      *)
(* (_mzd_copy_transpose_64x64): a W x W block, one word per row, is         *)
(* transposed in log2(W) rounds; round j (j = W/2, W/4, .., 1) swaps, in    *)
(* every 2j x 2j sub-block on the diagonal grid, the off-diagonal j x j     *)
(* corners using the mask of alternating j zeroes / j ones:                 *)
(*    xor = ((row[r] >> j) ^ row[r + j]) & m;  row[r] ^= xor << j;          *)
(*    row[r + j] ^= xor                                                     *)
(* for the rows r of the upper half of each sub-block.  The first round     *)
(* reads from the source and writes the destination, the others work in     *)
(* place.  W = 64 in the code; the model is generic in W = 2^e and          *)
(* MC_Butterfly checks it for W = 2, 4, 8, 16: by linearity on the zero     *)
(* block, the all-ones block and every single-bit block (and on all         *)
(* contents for W = 2, 4).                                                  *)
(***************************************************************************)
EXTENDS Naturals, Integers, FiniteSets, Sequences, TLC

CONSTANT W        \* a power of two

Bits == 0 .. W - 1
XorW(a, b) == (a \ b) \cup (b \ a)
ShlW(a, k) == {b + k : b \in {x \in a : x + k < W}}
ShrW(a, k) == {b - k : b \in {x \in a : x >= k}}
\* alternating j zeroes (high) with j ones (low), starting with ones at bit 0: 0x..0F0F for j = 4
MaskJ(j) == {b \in Bits : (b \div j) % 2 = 0}

\* one round on rows (a function 0..W-1 -> word)
Round(rows, j) ==
  [r \in 0 .. W - 1 |->
     IF (r \div j) % 2 = 0
     THEN LET x == XorW(ShrW(rows[r], j), rows[r + j]) \cap MaskJ(j) IN XorW(rows[r], ShlW(x, j))
     ELSE LET x == XorW(ShrW(rows[r - j], j), rows[r]) \cap MaskJ(j) IN XorW(rows[r], x)]
RECURSIVE Rounds(_, _)
Rounds(rows, j) == IF j = 0 THEN rows ELSE Rounds(Round(rows, j), j \div 2)
Transpose64(src) == Rounds(src, W \div 2)

\* specification: bit c of row i of the result  <=>  bit i of row c of the source
IsTranspose(src, dst) == \A i \in Bits, c \in Bits : (c \in dst[i]) <=> (i \in src[c])
=============================================================================
