-------------------------------- MODULE PLE --------------------------------
(***************************************************************************)
(* PLE elimination with NONDETERMINISTIC choice of the pivot row (C03).     *)
(*                                                                          *)
(* State: the working matrix S, the multipliers Lm (strictly lower part of  *)
(* L, column j = multipliers of pivot j), the row swaps P and pivot columns *)
(* Q found so far, the number r of pivots.  One step = one pivot: take the  *)
(* left-most column >= c that has a one in some row >= r, choose ANY such   *)
(* row, swap it into row r (the stored multipliers move with it), record    *)
(* P[r] and Q[r], eliminate below.  The library's routines (naive, Russian, *)
(* block recursive) are particular strategies of this machine.              *)
(*                                                                          *)
(* Checked by MC_PLE for ALL matrices up to 3x4 / 4x3 and ALL pivot         *)
(* choices: the loop invariant  P*A0 = L*S  at every step, and - at         *)
(* termination - that the compact result (L below, echelon part above,      *)
(* as mzd_ple leaves it) satisfies exactly the predicate Ops!PLEOK with     *)
(* which the trace validator judges the real code.  So the relational       *)
(* oracle accepts every correct pivoting strategy (no false alarm by        *)
(* construction), and what it accepts reconstructs A.                       *)
(***************************************************************************)
EXTENDS Ops

CONSTANTS MaxM, MaxN
VARIABLES A0, S, Lm, P, Q, r, done
vars == <<A0, S, Lm, P, Q, r, done>>

AllMats(m, n) == {Mat(m, n, f) : f \in [0 .. m - 1 -> SUBSET (0 .. n - 1)]}

Init == /\ \E m \in 1 .. MaxM, n \in 1 .. MaxN : A0 \in AllMats(m, n)
        /\ S = A0.r /\ Lm = [i \in 0 .. A0.m - 1 |-> {}]
        /\ P = << >> /\ Q = << >> /\ r = 0 /\ done = FALSE

m == A0.m
n == A0.n
\* columns 0..r-1 hold the pivots found so far; the rows from r on are zero there
Cands == UNION {{x \in S[i] : x >= r} : i \in r .. m - 1}

Pivot ==
  /\ ~done /\ r < m /\ Cands # {}
  /\ LET c == SetMin(Cands) IN
     \E i \in {x \in r .. m - 1 : c \in S[x]} :            \* ANY row holding a one in the left-most non-zero column
        LET S0 == SwapF(S, r, i)
            \* the pivot column is swapped to position r in the rows from r on (the rows above are completed
            \* later by the triangular transposed right application of Q)
            S1 == [j \in 0 .. m - 1 |-> IF j >= r /\ ((r \in S0[j]) # (c \in S0[j])) THEN Xor(S0[j], {r, c}) ELSE S0[j]]
            L1 == SwapF(Lm, r, i)
            below == {j \in r + 1 .. m - 1 : r \in S1[j]}
        IN /\ S' = [j \in 0 .. m - 1 |-> IF j \in below THEN Xor(S1[j], S1[r]) ELSE S1[j]]
           /\ Lm' = [j \in 0 .. m - 1 |-> IF j \in below THEN L1[j] \cup {r} ELSE L1[j]]
           /\ P' = Append(P, i) /\ Q' = Append(Q, c) /\ r' = r + 1
  /\ UNCHANGED <<A0, done>>

Finish == /\ ~done /\ (r = m \/ Cands = {}) /\ done' = TRUE /\ UNCHANGED <<A0, S, Lm, P, Q, r>>
Next == Pivot \/ Finish
Spec == Init /\ [][Next]_vars

\* ---- properties -------------------------------------------------------------
FullP == P \o [i \in 1 .. m - r |-> r + i - 1]                      \* identity beyond the rank
FullQ == Q \o [i \in 1 .. n - r |-> IF r + i - 1 < n THEN r + i - 1 ELSE n - 1]
Lfull == Mat(m, m, [i \in 0 .. m - 1 |-> Lm[i] \cup {i}])
\* loop invariant: the row- and column-permuted input equals L * (S with the column swaps completed in the rows above)
LoopInv == Eq(ApplyPRightTrans(ApplyPLeft(A0, FullP), FullQ), Mul(Lfull, ApplyPRightTransTriSem(Mat(m, n, S), FullQ)))
\* the compact form mzd_ple leaves: multipliers of pivot j in column j, echelon rows above
Compact == Mat(m, n, [i \in 0 .. m - 1 |-> IF i < r THEN Lm[i] \cup S[i] ELSE Lm[i]])
\* no clash between stored multipliers and echelon entries: row i < r has its pivot at Q[i] >= i
NoClash == \A i \in 0 .. r - 1 : \A x \in S[i] : x >= i
FinalOK == done => NoClash /\ PLEOK(A0, Compact, FullP, FullQ, r, 1)
=============================================================================
