--------------------------- MODULE TransposeTiling ---------------------------
(***************************************************************************)
(* The dispatcher of mzd_transpose (m4ri/mzd.c: _mzd_transpose,             *)
(* _mzd_transpose_notsmall, _mzd_transpose_base) as a tiling: which kernel  *)
(* is called on which rectangle of the source and where its output goes.    *)
(* The pointer arithmetic is transcribed (source pointer = (row, word),     *)
(* destination pointer = (row, word)); a tile records the source rectangle  *)
(* its kernel reads and the destination position its pointer denotes.       *)
(*  - more than 8 blocks in a dimension: split of the longer dimension at   *)
(*    split_round (a multiple of 1 block up to 12 blocks, of 8 blocks        *)
(*    beyond), recursion on both parts;                                      *)
(*  - base: stripes of one block of rows; inside, whole blocks are handed   *)
(*    to the two-at-a-time kernel through the "delayed / even" pairing that *)
(*    runs ACROSS stripes, with one single-block call up front when the     *)
(*    number of whole blocks is odd (js = ncols & nrows & 64); the partial  *)
(*    column block of every stripe; the remaining rows block column by      *)
(*    block column; the corner.                                             *)
(* BS = block size (64 in the code; 2, 3 in the model).                     *)
(* MC_TransposeTiling: for all shapes up to 20 x 20 blocks-and-a-bit the    *)
(* tiles are pairwise disjoint, cover the source exactly, every tile's      *)
(* destination pointer is the transposed position, tile sizes fit their     *)
(* kernels, and no block is left "delayed".                                 *)
(***************************************************************************)
EXTENDS Naturals, Integers, FiniteSets, Sequences, TLC

CONSTANT BS

Max2(a, b) == IF a > b THEN a ELSE b
SplitRound(n, k) == (((n \div 2) + (k - 1)) \div k) * k
Tile(kind, sp, dp, h, w) == [kind |-> kind, r |-> sp[1], c |-> sp[2] * BS, h |-> h, w |-> w, dr |-> dp[1], dc |-> dp[2] * BS]
\* pointers: <<row, word>>
AddRows(p, k) == <<p[1] + k, p[2]>>
AddWords(p, k) == <<p[1], p[2] + k>>

\* ---- the block loop of one stripe: j = js .. whole-1; state: cur pointers, delayed pointers, even flag, tiles
RECURSIVE StripeBlocks(_, _, _, _, _, _, _, _)
StripeBlocks(j, whole, dcur, scur, ddel, sdel, even, tiles) ==
  IF j >= whole THEN [dcur |-> dcur, scur |-> scur, ddel |-> ddel, sdel |-> sdel, even |-> even, tiles |-> tiles]
  ELSE IF ~even
       THEN StripeBlocks(j + 1, whole, AddRows(dcur, BS), AddWords(scur, 1), dcur, scur, TRUE, tiles)
       ELSE StripeBlocks(j + 1, whole, AddRows(dcur, BS), AddWords(scur, 1), ddel, sdel, FALSE,
                         tiles \cup {Tile("64x64_2a", sdel, ddel, BS, BS), Tile("64x64_2b", scur, dcur, BS, BS)})
RECURSIVE Stripes(_, _, _, _, _, _, _, _, _, _)
Stripes(fwd, fws, nrows, ncols, js, dcur, scur, del, even, tiles) ==
  LET whole == ncols \div BS
      b == StripeBlocks(js, whole, dcur, scur, del[1], del[2], even, tiles)
      t1 == IF ncols % BS # 0 THEN b.tiles \cup {Tile("64xlt64", AddWords(fws, whole), AddRows(fwd, whole * BS), BS, ncols % BS)} ELSE b.tiles
      fwd1 == AddWords(fwd, 1)
      fws1 == AddRows(fws, BS)
      nrows1 == nrows - BS
  IN IF nrows1 < BS THEN [fwd |-> fwd1, fws |-> fws1, nrows |-> nrows1, tiles |-> t1, pending |-> b.even]
     ELSE Stripes(fwd1, fws1, nrows1, ncols, 0, fwd1, fws1, <<b.ddel, b.sdel>>, b.even, t1)

RECURSIVE TopRows(_, _, _, _, _)
TopRows(fwd, fws, nrows, ncols, tiles) ==
  IF ncols < BS THEN [fwd |-> fwd, fws |-> fws, ncols |-> ncols, tiles |-> tiles]
  ELSE TopRows(AddRows(fwd, BS), AddWords(fws, 1), nrows, ncols - BS, tiles \cup {Tile("lt64x64", fws, fwd, nrows, BS)})

Base(fwd, fws, nrows, ncols) ==
  LET oddBlocks == ((nrows \div BS) % 2 = 1) /\ ((ncols \div BS) % 2 = 1)
      s == IF nrows >= BS
           THEN IF oddBlocks /\ nrows < 2 * BS /\ ncols < 2 * BS /\ nrows = BS /\ ncols = BS
                THEN [fwd |-> fwd, fws |-> fws, nrows |-> 0, tiles |-> {Tile("64x64", fws, fwd, BS, BS)}, pending |-> FALSE, done |-> TRUE]
                ELSE LET t0 == IF oddBlocks THEN {Tile("64x64", fws, fwd, BS, BS)} ELSE {}
                         dc == IF oddBlocks THEN AddRows(fwd, BS) ELSE fwd
                         sc == IF oddBlocks THEN AddWords(fws, 1) ELSE fws
                         st == Stripes(fwd, fws, nrows, ncols, IF oddBlocks THEN 1 ELSE 0, dc, sc, <<fwd, fws>>, FALSE, t0)
                     IN [fwd |-> st.fwd, fws |-> st.fws, nrows |-> st.nrows, tiles |-> st.tiles, pending |-> st.pending, done |-> FALSE]
           ELSE [fwd |-> fwd, fws |-> fws, nrows |-> nrows, tiles |-> {}, pending |-> FALSE, done |-> FALSE]
  IN IF s.done \/ s.nrows = 0 THEN [tiles |-> s.tiles, pending |-> s.pending]
     ELSE LET t == TopRows(s.fwd, s.fws, s.nrows, ncols, s.tiles) IN
          IF t.ncols = 0 THEN [tiles |-> t.tiles, pending |-> s.pending]
          ELSE [tiles |-> t.tiles \cup {Tile("small", t.fws, t.fwd, s.nrows, t.ncols)}, pending |-> s.pending]

RECURSIVE NotSmall(_, _, _, _, _)
NotSmall(fwd, fws, nrows, ncols, maxsize) ==
  IF maxsize <= 8 * BS THEN Base(fwd, fws, nrows, ncols)
  ELSE LET large == SplitRound(maxsize, IF maxsize <= 12 * BS THEN BS ELSE 8 * BS)
           offset == large \div BS
       IN IF nrows >= ncols
          THEN LET a == NotSmall(fwd, fws, large, ncols, Max2(large, ncols))
                   b == NotSmall(AddWords(fwd, offset), AddRows(fws, large), nrows - large, ncols, Max2(nrows - large, ncols))
               IN [tiles |-> a.tiles \cup b.tiles, pending |-> a.pending \/ b.pending]
          ELSE LET a == NotSmall(fwd, fws, nrows, large, Max2(nrows, large))
                   b == NotSmall(AddRows(fwd, large), AddWords(fws, offset), nrows, ncols - large, Max2(nrows, ncols - large))
               IN [tiles |-> a.tiles \cup b.tiles, pending |-> a.pending \/ b.pending]

Transpose(nrows, ncols) ==
  LET maxsize == Max2(nrows, ncols) IN
  IF maxsize < BS THEN [tiles |-> {Tile("small", <<0, 0>>, <<0, 0>>, nrows, ncols)}, pending |-> FALSE]
  ELSE NotSmall(<<0, 0>>, <<0, 0>>, nrows, ncols, maxsize)

\* ---- what must hold
Cells(t) == {<<i, j>> : i \in t.r .. t.r + t.h - 1, j \in t.c .. t.c + t.w - 1}
TilingOK(nrows, ncols) ==
  LET T == Transpose(nrows, ncols) IN
  /\ ~T.pending                                                                   \* no block left in the "delayed" slot
  /\ UNION {Cells(t) : t \in T.tiles} = (0 .. nrows - 1) \X (0 .. ncols - 1)      \* the source is covered ...
  /\ \A t1, t2 \in T.tiles : t1 # t2 => Cells(t1) \cap Cells(t2) = {}             \* ... exactly once
  /\ \A t \in T.tiles : t.dr = t.c /\ t.dc = t.r                                  \* output goes to the transposed position
  /\ \A t \in T.tiles : CASE t.kind \in {"64x64", "64x64_2a", "64x64_2b"} -> t.h = BS /\ t.w = BS
                          [] t.kind = "64xlt64" -> t.h = BS /\ t.w > 0 /\ t.w < BS
                          [] t.kind = "lt64x64" -> t.h > 0 /\ t.h < BS /\ t.w = BS
                          [] t.kind = "small" -> t.h > 0 /\ t.h < BS /\ t.w > 0 /\ t.w < BS
=============================================================================
