------------------------------ MODULE Threads ------------------------------
(***************************************************************************)
(* C15: T threads, each running a sequence of library calls on thread-      *)
(* private matrices.  A call is modelled by the global objects it touches:  *)
(* every call that creates or frees a matrix goes through the allocator,    *)
(* which in the default configuration reads and writes the block cache and  *)
(* the header cache without synchronisation, and in the thread-safe         *)
(* configuration touches no global at all; every call may read the Gray     *)
(* code book, which is written only at load time.  An access lasts from     *)
(* Begin to End of the call (ghost variable acc), so a data race is a       *)
(* state: two threads inside calls that touch the same global, at least one *)
(* of them writing.  Thread-private data cannot race by construction (the   *)
(* operands of a call are owned by the calling thread).                     *)
(***************************************************************************)
EXTENDS Naturals, FiniteSets, Sequences

CONSTANTS Thread,        \* thread ids
          CACHES,        \* TRUE: default build; FALSE: --enable-thread-safe
          OMPLOCK,       \* TRUE: OpenMP build, block cache guarded by critical(mmc), header cache compiled out
          MaxCalls       \* calls per thread

Kinds == {"alloc_free", "compute"}     \* compute = mul/eliminate/factor/solve/transpose: allocates temporaries too
Globals == {"block_cache", "header_cache", "codebook"}

\* what a call of each kind touches: set of <<global, mode>>
Touches(kind) ==
  LET alloc == IF OMPLOCK THEN {}                      \* serialised by the critical section, header cache disabled
               ELSE IF CACHES THEN {<<"block_cache", "w">>, <<"header_cache", "w">>}
               ELSE {}
  IN IF kind = "alloc_free" THEN alloc ELSE alloc \cup {<<"codebook", "r">>}

VARIABLES pc,      \* thread -> "idle" | "in"
          acc,     \* thread -> set of <<global, mode>> currently accessed
          done,    \* thread -> number of completed calls
          lock     \* holder of critical(mmc) or "none" (only used when OMPLOCK)
vars == <<pc, acc, done, lock>>

Init == /\ pc = [t \in Thread |-> "idle"] /\ acc = [t \in Thread |-> {}]
        /\ done = [t \in Thread |-> 0] /\ lock = "none"

Begin(t, kind) == /\ pc[t] = "idle" /\ done[t] < MaxCalls
                  /\ pc' = [pc EXCEPT ![t] = "in"]
                  /\ acc' = [acc EXCEPT ![t] = Touches(kind)]
                  /\ UNCHANGED <<done, lock>>
End(t) == /\ pc[t] = "in"
          /\ pc' = [pc EXCEPT ![t] = "idle"] /\ acc' = [acc EXCEPT ![t] = {}]
          /\ done' = [done EXCEPT ![t] = done[t] + 1] /\ UNCHANGED lock
Next == \E t \in Thread : (\E k \in Kinds : Begin(t, k)) \/ End(t)
Spec == Init /\ [][Next]_vars

Conflict(a, b) == a[1] = b[1] /\ (a[2] = "w" \/ b[2] = "w")
NoRace == \A s, t \in Thread : s # t => \A a \in acc[s], b \in acc[t] : ~Conflict(a, b)
=============================================================================
