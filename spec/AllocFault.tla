----------------------------- MODULE AllocFault -----------------------------
(***************************************************************************)
(* C20: a library call is a sequence of N allocation requests interleaved   *)
(* with computation.  The environment may make exactly one request fail.    *)
(* The specification allows a single continuation after a failed request:   *)
(* the controlled abort (diagnostic through the library's error handler,    *)
(* then abort()).  Using the null result, returning to the caller or any    *)
(* other termination are not behaviours of the specification.               *)
(***************************************************************************)
EXTENDS Naturals, Sequences

CONSTANT N          \* number of allocation requests of the scenario
VARIABLES pc,       \* "run" | "died" | "returned"
          k,        \* requests made so far
          failed    \* index of the failed request, 0 = none
vars == <<pc, k, failed>>

Init == pc = "run" /\ k = 0 /\ failed \in 0 .. N      \* the environment picks the fault position
Request == /\ pc = "run" /\ k < N /\ k' = k + 1
           /\ IF failed = k + 1 THEN pc' = "died" ELSE pc' = pc
           /\ UNCHANGED failed
Return == pc = "run" /\ k = N /\ pc' = "returned" /\ UNCHANGED <<k, failed>>
Next == Request \/ Return
Spec == Init /\ [][Next]_vars /\ WF_vars(Next)

\* the only terminal states: returned without a fault, died exactly at the failed request
DieIffFault == (pc = "died" => failed # 0 /\ k = failed) /\ (pc = "returned" => failed = 0)
NoUseOfNull == pc = "run" => (failed = 0 \/ k < failed)       \* never runs on after the failed request
Terminates == <>(pc \in {"died", "returned"})

\* fate observed from a real execution with the i-th request failing (0 = none):
\*   "D" handler then abort, "R" returned, "S" other signal, "A" abort without the handler, "X" exit,
\*   "N" returned after FEWER than i requests: no request failed in this execution (the number of requests of a call
\*   depends on the schedule in an OpenMP build - which thread's release fills the block cache first) - nothing to judge
FateAllowed(i, fate) == IF i = 0 THEN fate = "R" ELSE fate \in {"D", "N"}
=============================================================================
