------------------------------- MODULE Alloc -------------------------------
(***************************************************************************)
(* The allocator of the library as a state machine (C14, and the allocator  *)
(* part of C10/C15/C20): the block cache of m4ri/mmc.c (NSLOTS slots, exact *)
(* size match, slot cleared on hand-out, first empty slot on release,       *)
(* round-robin eviction, threshold) and the header cache of m4ri/mzd.c      *)
(* (blocks of HB headers, `used` set, `current` block, growth up to MAXB    *)
(* blocks, spill to malloc beyond, unlink-on-empty).  One action per public *)
(* call (mzd_init, mzd_init_window, mzd_free, m4ri_mmc_cleanup); each       *)
(* action also yields the sequence of calls it makes to the C heap          *)
(* (`obs`), which is what the conformance harness observes through its      *)
(* link-time malloc/free wrappers.                                          *)
(*                                                                          *)
(* The whole allocator state is one record st so that the same operators    *)
(* serve the bounded model (MC_Alloc), the behaviour generator (Gen_Alloc)  *)
(* and the trace validator (TraceAlloc).                                    *)
(***************************************************************************)
EXTENDS Naturals, Integers, FiniteSets, FiniteSetsExt, Sequences, TLC

CONSTANTS NSLOTS,    \* __M4RI_MMC_NBLOCKS
          THRESH,    \* __M4RI_MMC_THRESHOLD (bytes)
          HB,        \* headers per header-cache block (64)
          MAXB,      \* __M4RI_MZD_T_CACHE_MAX
          HSIZE,     \* sizeof(mzd_t)
          BSIZE,     \* sizeof(mzd_t_cache_t)
          CACHES,    \* TRUE: block and header caches compiled in; FALSE: --enable-thread-safe
          Handles,   \* names of the matrix handles used by a history
          MaxIds     \* bound on simultaneously live heap blocks (model ids are recycled)

NoObj == [kind |-> "none", hb |-> 0, hslot |-> 0, data |-> 0, size |-> 0, parent |-> 0]

InitSt == [slots |-> [i \in 1 .. NSLOTS |-> [size |-> 0, blk |-> 0]],
           evict |-> 0,
           heap  |-> << >>,                               \* heap block id -> size (a function)
           hlist |-> << [id |-> 0, used |-> {}] >>,        \* header blocks in list order; id 0 = the static one
           cur   |-> 1,
           objs  |-> [h \in Handles |-> NoObj]]

NewId(st) == CHOOSE i \in 1 .. MaxIds : i \notin DOMAIN st.heap
HeapAdd(st, id, size) == [st EXCEPT !.heap = [x \in DOMAIN st.heap \cup {id} |-> IF x = id THEN size ELSE st.heap[x]]]
HeapDel(st, id) == [st EXCEPT !.heap = [x \in DOMAIN st.heap \ {id} |-> st.heap[x]]]

-----------------------------------------------------------------------------
(* m4ri_mmc_malloc / m4ri_mm_malloc: result [st, obs, blk] *)
\* obs entries are <<kind, tag, size>>: kind "m"/"f", tag "data" (matrix storage), "hdr" (a header
\* from malloc), "hblk" (a block of HB headers)
RawMalloc(st, size, tag) ==
  LET id == NewId(st) IN [st |-> HeapAdd(st, id, size), obs |-> << <<"m", tag, size>> >>, blk |-> id]

MmcMalloc(st, size) ==
  IF CACHES /\ size <= THRESH /\ \E i \in 1 .. NSLOTS : st.slots[i].size = size
  THEN LET i == CHOOSE i \in 1 .. NSLOTS : st.slots[i].size = size /\ \A j \in 1 .. i - 1 : st.slots[j].size # size
       IN [st |-> [st EXCEPT !.slots[i] = [size |-> 0, blk |-> 0]], obs |-> << >>, blk |-> st.slots[i].blk]
  ELSE RawMalloc(st, size, "data")

(* m4ri_mmc_free(blk, size): result [st, obs] *)
MmcFree(st, blk, size) ==
  IF CACHES /\ size < THRESH
  THEN IF \E i \in 1 .. NSLOTS : st.slots[i].size = 0
       THEN LET i == CHOOSE i \in 1 .. NSLOTS : st.slots[i].size = 0 /\ \A j \in 1 .. i - 1 : st.slots[j].size # 0
            IN [st |-> [st EXCEPT !.slots[i] = [size |-> size, blk |-> blk]], obs |-> << >>]
       ELSE LET j == st.evict + 1
                old == st.slots[j]
                s1 == HeapDel(st, old.blk)
            IN [st |-> [s1 EXCEPT !.slots[j] = [size |-> size, blk |-> blk], !.evict = (st.evict + 1) % NSLOTS],
                obs |-> << <<"f", "data", old.size>> >>]
  ELSE IF blk = 0 THEN [st |-> st, obs |-> << >>]            \* free(NULL) of a zero-area matrix
  ELSE [st |-> HeapDel(st, blk), obs |-> << <<"f", "data", size>> >>]

-----------------------------------------------------------------------------
(* mzd_t_malloc: result [st, obs, hb, hslot]; hb = id of the header block (0 static), or, for a
   spilled header, hb = -1 and hslot = heap id of the malloc'ed header *)
Full(b) == b.used = 0 .. HB - 1
HighestFree(b) == CHOOSE x \in (0 .. HB - 1) \ b.used : \A y \in (0 .. HB - 1) \ b.used : y <= x

HeaderMalloc(st) ==
  IF ~CACHES
  THEN LET r == RawMalloc(st, HSIZE, "hdr") IN [st |-> r.st, obs |-> r.obs, hb |-> -1, hslot |-> r.blk]
  ELSE
  LET n == Len(st.hlist)
      take(s, k) ==    \* take the highest free entry of block number k (list position)
        LET b == s.hlist[k]  e == HighestFree(b) IN
        [st |-> [s EXCEPT !.hlist[k].used = b.used \cup {e}, !.cur = k], obs |-> << >>, hb |-> b.id, hslot |-> e]
  IN IF ~Full(st.hlist[st.cur]) THEN take(st, st.cur)
     ELSE IF \E k \in 1 .. n : ~Full(st.hlist[k])
          THEN take(st, CHOOSE k \in 1 .. n : ~Full(st.hlist[k]) /\ \A j \in 1 .. k - 1 : Full(st.hlist[j]))
          ELSE IF n < MAXB
               THEN LET r == RawMalloc(st, BSIZE, "hblk")
                        s2 == [r.st EXCEPT !.hlist = Append(st.hlist, [id |-> r.blk, used |-> {}])]
                        t == take(s2, n + 1)
                    IN [t EXCEPT !.obs = r.obs]
               ELSE LET r == RawMalloc(st, HSIZE, "hdr")     \* upper limit reached: header from malloc
                    IN [st |-> [r.st EXCEPT !.cur = n], obs |-> r.obs, hb |-> -1, hslot |-> r.blk]

(* mzd_t_free *)
RemoveAt(s, k) == [i \in 1 .. Len(s) - 1 |-> IF i < k THEN s[i] ELSE s[i + 1]]
HeaderFree(st, hb, hslot) ==
  IF hb = -1 THEN [st |-> HeapDel(st, hslot), obs |-> << <<"f", "hdr", HSIZE>> >>]
  ELSE
  LET k == CHOOSE k \in 1 .. Len(st.hlist) : st.hlist[k].id = hb
      used2 == st.hlist[k].used \ {hslot}
      s1 == [st EXCEPT !.hlist[k].used = used2]
  IN IF used2 # {} THEN [st |-> s1, obs |-> << >>]
     ELSE IF k = 1 THEN [st |-> [s1 EXCEPT !.cur = 1], obs |-> << >>]
     ELSE LET newcur == IF st.cur = k THEN k - 1 ELSE IF st.cur > k THEN st.cur - 1 ELSE st.cur
              s2 == [s1 EXCEPT !.hlist = RemoveAt(s1.hlist, k), !.cur = newcur]
          IN [st |-> HeapDel(s2, hb), obs |-> << <<"f", "hblk", BSIZE>> >>]

-----------------------------------------------------------------------------
(* public calls; size = bytes of the data block (0 for a zero-area matrix) *)
DoInit(st, h, size) ==
  LET a == HeaderMalloc(st)
      b == IF size = 0 THEN [st |-> a.st, obs |-> << >>, blk |-> 0] ELSE MmcMalloc(a.st, size)
  IN [st |-> [b.st EXCEPT !.objs[h] = [kind |-> "owner", hb |-> a.hb, hslot |-> a.hslot, data |-> b.blk, size |-> size, parent |-> 0]],
      obs |-> a.obs \o b.obs]

DoWindow(st, h, p) ==
  LET a == HeaderMalloc(st)
  IN [st |-> [a.st EXCEPT !.objs[h] = [kind |-> "window", hb |-> a.hb, hslot |-> a.hslot, data |-> 0, size |-> 0, parent |-> p]],
      obs |-> a.obs]

DoFree(st, h) ==
  LET o == st.objs[h]
      a == IF o.kind = "owner" THEN MmcFree(st, o.data, o.size) ELSE [st |-> st, obs |-> << >>]   \* a window never releases storage
      b == HeaderFree(a.st, o.hb, o.hslot)
  IN [st |-> [b.st EXCEPT !.objs[h] = NoObj], obs |-> a.obs \o b.obs]

(* m4ri_mmc_cleanup: release every cached block, in slot order *)
RECURSIVE CleanFrom(_, _, _)
CleanFrom(st, i, obs) ==
  IF i > NSLOTS THEN [st |-> st, obs |-> obs]
  ELSE IF st.slots[i].size = 0 THEN CleanFrom(st, i + 1, obs)
  ELSE CleanFrom([HeapDel(st, st.slots[i].blk) EXCEPT !.slots[i] = [size |-> 0, blk |-> 0]], i + 1,
                 Append(obs, <<"f", "data", st.slots[i].size>>))
DoCleanup(st) == IF CACHES THEN CleanFrom(st, 1, << >>) ELSE [st |-> st, obs |-> << >>]

-----------------------------------------------------------------------------
(* Properties (C14) over a state st *)
Live(st) == {h \in Handles : st.objs[h].kind # "none"}
Owners(st) == {h \in Handles : st.objs[h].kind = "owner"}
DataBlocks(st) == {st.objs[h].data : h \in {x \in Owners(st) : st.objs[x].data # 0}}
CachedBlocks(st) == {st.slots[i].blk : i \in {x \in 1 .. NSLOTS : st.slots[x].size # 0}}
HeaderBlocks(st) == {st.hlist[k].id : k \in 2 .. Len(st.hlist)}
Spilled(st) == {st.objs[h].hslot : h \in {x \in Live(st) : st.objs[x].hb = -1}}

\* a live matrix shares storage with no other live matrix and with no cached (recyclable) block
StorageDisjoint(st) ==
  /\ Cardinality(DataBlocks(st)) = Cardinality({h \in Owners(st) : st.objs[h].data # 0})
  /\ DataBlocks(st) \cap CachedBlocks(st) = {}
  /\ Cardinality(CachedBlocks(st)) = Cardinality({i \in 1 .. NSLOTS : st.slots[i].size # 0})
\* header slots are not shared
HeadersDisjoint(st) ==
  Cardinality({<<st.objs[h].hb, st.objs[h].hslot>> : h \in Live(st)}) = Cardinality(Live(st))
\* bookkeeping of the header cache is exact: used sets = slots of live headers
HeaderBookkeeping(st) ==
  \A k \in 1 .. Len(st.hlist) :
     st.hlist[k].used = {st.objs[h].hslot : h \in {x \in Live(st) : st.objs[x].hb = st.hlist[k].id}}
\* nothing leaks and nothing is used after release: the heap holds exactly what is reachable
HeapExact(st) ==
  DOMAIN st.heap = DataBlocks(st) \cup CachedBlocks(st) \cup HeaderBlocks(st) \cup Spilled(st)
\* sizes recorded for cached blocks are the sizes of the heap blocks (a recycled block has the size asked for)
SizesExact(st) ==
  /\ \A i \in 1 .. NSLOTS : st.slots[i].size # 0 => st.heap[st.slots[i].blk] = st.slots[i].size
  /\ \A h \in Owners(st) : st.objs[h].data # 0 => st.heap[st.objs[h].data] = st.objs[h].size
WellFormedSt(st) ==
  /\ st.cur \in 1 .. Len(st.hlist) /\ Len(st.hlist) <= MAXB /\ st.hlist[1].id = 0
  /\ st.evict \in 0 .. NSLOTS - 1
  /\ \A k \in 2 .. Len(st.hlist) : st.hlist[k].used # {}     \* empty extra blocks are unlinked

AllocInv(st) == /\ StorageDisjoint(st) /\ HeadersDisjoint(st) /\ HeaderBookkeeping(st)
                /\ HeapExact(st) /\ SizesExact(st) /\ WellFormedSt(st)
\* after everything has been freed and the cache cleaned up, nothing is retained
NothingRetained(st) == (Live(st) = {} /\ CachedBlocks(st) = {}) => DOMAIN st.heap = {}
=============================================================================
