-------------------------------- MODULE Store --------------------------------
(***************************************************************************)
(* The library as a state machine over a store of matrix handles (DESIGN    *)
(* 3.2).  State: objs - what each handle denotes (nothing, an owner, a      *)
(* window given by its root owner and absolute offsets), mem - the value of *)
(* every owner.  The value of a window is the corresponding block of its    *)
(* root; writing through any handle rewrites that block of the root (so all *)
(* overlapping handles see it).  One action per public call; every action   *)
(* carries the admissible aliasing of its operands as its enabling          *)
(* condition (identical operands where the documentation allows it,         *)
(* otherwise disjoint storage) and takes the new values from Ops.tla, the   *)
(* same operators that judge single recorded calls.                         *)
(*                                                                          *)
(* Used three ways: MC_Store checks the store laws below for all short      *)
(* behaviours over small shapes; Gen_Store samples long behaviours and      *)
(* prints them as programs, which the harness family "prog" executes on the *)
(* real library; TraceStore walks the recorded trace of such a run CARRYING *)
(* this state and rejects the first step whose recorded memory differs from *)
(* the state the specification reaches (histories compose: C10, C09, C08).  *)
(***************************************************************************)
EXTENDS Ops

CONSTANTS Handles,      \* handle names (small integers)
          RowDims,      \* admissible numbers of rows of new owners
          ColDims,      \* admissible numbers of columns of new owners
          Seeds,        \* content seeds (GF2!Pat), 0 = zero matrix
          ABSTRACT      \* TRUE: values are not tracked (mem stays empty): the generator only needs shapes and aliasing

VARIABLES objs, mem
svars == <<objs, mem>>

NoObj == [k |-> "none", m |-> 0, n |-> 0, root |-> 0, r0 |-> 0, c0 |-> 0]
Live(h) == objs[h].k # "none"
IsOwner(h) == objs[h].k = "own"
RootMat(h) == LET r == objs[h].root IN Mat(objs[r].m, objs[r].n, mem[r])
Value(h) == LET o == objs[h] IN Sub(RootMat(h), o.r0, o.c0, o.m, o.n)
\* the cells of the root that handle h covers
Overlap(a, b) ==
  LET x == objs[a]  y == objs[b] IN
  /\ x.root = y.root
  /\ x.r0 < y.r0 + y.m /\ y.r0 < x.r0 + x.m
  /\ x.c0 < y.c0 + y.n /\ y.c0 < x.c0 + x.n
Same(a, b) == LET x == objs[a]  y == objs[b] IN x.root = y.root /\ x.r0 = y.r0 /\ x.c0 = y.c0 /\ x.m = y.m /\ x.n = y.n
Disjoint(a, b) == ~Overlap(a, b)
SameOrDisjoint(a, b) == Same(a, b) \/ Disjoint(a, b)
\* writing V through handle h
Put(h, V) == IF ABSTRACT THEN UNCHANGED mem ELSE LET o == objs[h] IN mem' = [mem EXCEPT ![o.root] = Embed(RootMat(h), o.r0, o.c0, V).r]
Dm(h) == objs[h].m
Dn(h) == objs[h].n

StoreInit == objs = [h \in Handles |-> NoObj] /\ mem = [h \in Handles |-> << >>]

-----------------------------------------------------------------------------
\* creation, windows, release
New(h, m, n, seed) ==
  /\ ~Live(h)
  /\ objs' = [objs EXCEPT ![h] = [k |-> "own", m |-> m, n |-> n, root |-> h, r0 |-> 0, c0 |-> 0]]
  /\ mem' = IF ABSTRACT THEN mem ELSE [mem EXCEPT ![h] = (IF seed = 0 THEN Zero(m, n) ELSE Pat(m, n, seed)).r]
\* mzd_init_window(p, r0, c0, r0+m, c0+n): c0 a multiple of the word size, inside p
Win(h, p, r0, c0, m, n) ==
  /\ ~Live(h) /\ Live(p)
  /\ m >= 1 /\ n >= 1 /\ c0 % 64 = 0 /\ r0 + m <= objs[p].m /\ c0 + n <= objs[p].n
  /\ objs' = [objs EXCEPT ![h] = [k |-> "win", m |-> m, n |-> n, root |-> objs[p].root, r0 |-> objs[p].r0 + r0, c0 |-> objs[p].c0 + c0]]
  /\ UNCHANGED mem
\* mzd_free: an owner only after its windows
Free(h) ==
  /\ Live(h)
  /\ IsOwner(h) => \A w \in Handles \ {h} : ~(Live(w) /\ objs[w].root = h)
  /\ objs' = [objs EXCEPT ![h] = NoObj]
  /\ mem' = IF ABSTRACT THEN mem ELSE [mem EXCEPT ![h] = << >>]

\* data movement and arithmetic
Add3(c, a, b) ==
  /\ Live(c) /\ Live(a) /\ Live(b)
  /\ Dm(a) = Dm(b) /\ Dn(a) = Dn(b) /\ Dm(c) = Dm(a) /\ Dn(c) = Dn(a)
  /\ SameOrDisjoint(c, a) /\ SameOrDisjoint(c, b)
  /\ Put(c, AddSem(Value(a), Value(b))) /\ UNCHANGED objs
Copy2(d, a) ==
  /\ Live(d) /\ Live(a) /\ Dm(d) >= Dm(a) /\ Dn(d) >= Dn(a)
  /\ Same(d, a) \/ Disjoint(d, a)
  /\ Put(d, IF Same(d, a) THEN Value(d) ELSE CopySem(Value(d), Value(a))) /\ UNCHANGED objs
Mul3(c, a, b, acc) ==
  /\ Live(c) /\ Live(a) /\ Live(b)
  /\ Dn(a) = Dm(b) /\ Dm(c) = Dm(a) /\ Dn(c) = Dn(b)
  /\ Disjoint(c, a) /\ Disjoint(c, b)
  /\ Put(c, IF acc THEN AddMulSem(Value(c), Value(a), Value(b)) ELSE MulSem(Value(a), Value(b))) /\ UNCHANGED objs
Transpose2(d, a) ==
  /\ Live(d) /\ Live(a) /\ Dm(d) = Dn(a) /\ Dn(d) = Dm(a) /\ Disjoint(d, a)
  /\ Put(d, TransposeSem(Value(a))) /\ UNCHANGED objs
Submatrix2(d, a, lr, lc, hr, hc) ==
  /\ Live(d) /\ Live(a) /\ lr < hr /\ lc < hc /\ hr <= Dm(a) /\ hc <= Dn(a)
  /\ Dm(d) >= hr - lr /\ Dn(d) >= hc - lc /\ Disjoint(d, a)        \* a larger destination keeps what lies outside the block
  /\ Put(d, CopySem(Value(d), SubmatrixSem(Value(a), lr, lc, hr, hc))) /\ UNCHANGED objs
Concat3(d, a, b) ==
  /\ Live(d) /\ Live(a) /\ Live(b) /\ Dm(a) = Dm(b)
  /\ Dm(d) = Dm(a) /\ Dn(d) = Dn(a) + Dn(b) /\ Disjoint(d, a) /\ Disjoint(d, b)
  /\ Put(d, ConcatSem(Value(a), Value(b))) /\ UNCHANGED objs
Stack3(d, a, b) ==
  /\ Live(d) /\ Live(a) /\ Live(b) /\ Dn(a) = Dn(b)
  /\ Dn(d) = Dn(a) /\ Dm(d) = Dm(a) + Dm(b) /\ Disjoint(d, a) /\ Disjoint(d, b)
  /\ Put(d, StackSem(Value(a), Value(b))) /\ UNCHANGED objs
\* mzd_extract_u / mzd_extract_l: the k x k upper / lower triangle (k = min of the dimensions), destination exactly k x k
ExtractTri2(d, a, upper) ==
  /\ Live(d) /\ Live(a) /\ LET k == Min({Dm(a), Dn(a)}) IN Dm(d) = k /\ Dn(d) = k
  /\ Disjoint(d, a)
  /\ Put(d, IF upper THEN ExtractUSem(Value(a)) ELSE ExtractLSem(Value(a))) /\ UNCHANGED objs
\* mzd_copy_row(B, i, A, j): row j of A over the first Dn(a) entries of row i of B; also inside one matrix
CopyRow2(b, i, a, j) ==
  /\ Live(b) /\ Live(a) /\ i < Dm(b) /\ j < Dm(a) /\ Dn(b) >= Dn(a)
  /\ Same(b, a) \/ Disjoint(b, a)
  /\ Put(b, CopyRowSem(Value(b), i, Value(a), j)) /\ UNCHANGED objs
SetUi(h, v) == Live(h) /\ Put(h, SetUiSem(Value(h), v)) /\ UNCHANGED objs

\* in-place row / column operations
RowSwap2(h, i, j) == Live(h) /\ i < Dm(h) /\ j < Dm(h) /\ Put(h, RowSwapSem(Value(h), i, j)) /\ UNCHANGED objs
ColSwap2(h, i, j) == Live(h) /\ i < Dn(h) /\ j < Dn(h) /\ Put(h, ColSwapSem(Value(h), i, j)) /\ UNCHANGED objs
RowAdd2(h, src, dst) == Live(h) /\ src < Dm(h) /\ dst < Dm(h) /\ src # dst /\ Put(h, RowAddSem(Value(h), src, dst)) /\ UNCHANGED objs
\* full reduction is functional: the unique RREF
Echelonize(h) == Live(h) /\ Put(h, RREF(Value(h))) /\ UNCHANGED objs

\* relational steps: the new value is any one the property allows (the trace validator takes the recorded outcome
\* after checking it with the relational predicate; the generator does not track values)
PleStep(h, isple, Anew, P, Q, r) ==
  /\ Live(h) /\ (IF ABSTRACT THEN TRUE ELSE PLEOK(Value(h), Anew, P, Q, r, isple)) /\ Put(h, Anew) /\ UNCHANGED objs
EchelonStep(h, Anew, r) ==          \* without full reduction: any row echelon form of the same row space
  /\ Live(h) /\ (IF ABSTRACT THEN TRUE ELSE EchelonOK(Value(h), Anew, r, 0)) /\ Put(h, Anew) /\ UNCHANGED objs
\* observers change nothing
Observe(a, b) == Live(a) /\ Live(b) /\ UNCHANGED <<objs, mem>>

-----------------------------------------------------------------------------
\* store laws (checked by MC_Store for every reachable state / step)
TypeOK ==
  \A h \in Handles :
     /\ objs[h].k \in {"none", "own", "win"}
     /\ Live(h) => /\ IsOwner(objs[h].root)
                   /\ objs[h].r0 + objs[h].m <= objs[objs[h].root].m /\ objs[h].c0 + objs[h].n <= objs[objs[h].root].n
                   /\ (IsOwner(h) /\ ~ABSTRACT) => WellFormed(Mat(objs[h].m, objs[h].n, mem[h]))      \* owners: no bits beyond the last column (C10)
\* frame (C09): a step changes no cell of the store outside the handle it writes through;  in particular the value
\* of every live handle disjoint from it is unchanged, and the rest of a parent around a written window is unchanged
FrameLaw(w) ==
  ABSTRACT \/ \A h \in Handles : (Live(h) /\ h # w /\ objs'[h] = objs[h] /\ Disjoint(h, w)) =>
      LET o == objs[h] IN Sub(Mat(objs[o.root].m, objs[o.root].n, mem'[o.root]), o.r0, o.c0, o.m, o.n) = Value(h)
=============================================================================
