-------------------------------- MODULE OMP --------------------------------
(***************************************************************************)
(* C16: the two OpenMP constructs of the library as interleaving models.    *)
(*                                                                          *)
(* (1) mp.c: "parallel sections" - four sections, each performing two       *)
(*     accumulations C_q += A_i * B_j into ITS quadrant q of C.  An         *)
(*     accumulation is a read of the quadrant followed by a write           *)
(*     (non-atomic).  Threads pick unstarted sections.                      *)
(* (2) brilliantrussian.c: "parallel for schedule(static, CH)" over the     *)
(*     rows of a block: iteration r reads k bits of row r, looks up a table *)
(*     row into a thread-PRIVATE temporary t and adds it to row r.          *)
(*                                                                          *)
(* For every number of threads and every interleaving the final state must  *)
(* equal the sequential result.  The constants QuadOf and PRIVATE make the  *)
(* two mechanisms explicit; the witness configurations (a quadrant shared   *)
(* by two sections; a shared temporary) violate the property.               *)
(***************************************************************************)
EXTENDS Naturals, FiniteSets, Sequences, TLC

CONSTANTS T,          \* number of threads
          QuadOf,     \* section -> quadrant it accumulates into (identity in the code)
          R, CH,      \* parallel for: R rows, chunk size CH
          PRIVATE     \* TRUE: the temporary of the row loop is private(t)

Thr == 1 .. T
Sec == 1 .. 4
Terms(s) == {<<s, 1>>, <<s, 2>>}                 \* the two products section s adds

VARIABLES C,       \* quadrant -> set of terms accumulated (the "value")
          spc,     \* section -> 0 not started, 1..4 = micro step, 5 done
          sown,    \* section -> thread running it (0 none)
          sloc,    \* section -> local copy read from C
          rows,    \* row -> value (number of table rows added; sequentially each row gets exactly 1)
          rpc,     \* thread -> [i: next iteration index of its chunk list, st: 0 read table, 1 add]
          tmpS,    \* shared temporary (used when ~PRIVATE)
          tmpP     \* thread -> private temporary
vars == <<C, spc, sown, sloc, rows, rpc, tmpS, tmpP>>

\* static schedule: iteration r belongs to thread ((r \div CH) % T) + 1
Mine(th) == {r \in 0 .. R - 1 : ((r \div CH) % T) + 1 = th}
NextIter(th, from) == IF \E r \in Mine(th) : r >= from THEN CHOOSE r \in Mine(th) : r >= from /\ \A q \in Mine(th) : q >= from => r <= q ELSE R

Init == /\ C = [q \in 1 .. 4 |-> {}] /\ spc = [s \in Sec |-> 0] /\ sown = [s \in Sec |-> 0] /\ sloc = [s \in Sec |-> {}]
        /\ rows = [r \in 0 .. R - 1 |-> 0]
        /\ rpc = [th \in Thr |-> [i |-> NextIter(th, 0), st |-> 0]]
        /\ tmpS = 0 /\ tmpP = [th \in Thr |-> 0]

\* ---- sections: a thread that runs no section may take an unstarted one
Busy(th) == \E s \in Sec : sown[s] = th /\ spc[s] \in 1 .. 4
Take(th, s) == /\ spc[s] = 0 /\ ~Busy(th)
               /\ spc' = [spc EXCEPT ![s] = 1] /\ sown' = [sown EXCEPT ![s] = th]
               /\ UNCHANGED <<C, sloc, rows, rpc, tmpS, tmpP>>
\* micro steps 1: read for term 1, 2: write term 1, 3: read for term 2, 4: write term 2
StepSec(s) == /\ spc[s] \in 1 .. 4
              /\ LET q == QuadOf[s] IN
                 IF spc[s] \in {1, 3}
                 THEN sloc' = [sloc EXCEPT ![s] = C[q]] /\ C' = C
                 ELSE C' = [C EXCEPT ![q] = sloc[s] \cup {<<s, spc[s] \div 2>>}] /\ sloc' = sloc
              /\ spc' = [spc EXCEPT ![s] = spc[s] + 1]
              /\ UNCHANGED <<sown, rows, rpc, tmpS, tmpP>>

\* ---- parallel for: per iteration two micro steps (load table row into t, add t to the row)
StepRow(th) == /\ rpc[th].i < R
               /\ IF rpc[th].st = 0
                  THEN /\ (IF PRIVATE THEN tmpP' = [tmpP EXCEPT ![th] = rpc[th].i + 1] /\ tmpS' = tmpS
                                      ELSE tmpS' = rpc[th].i + 1 /\ tmpP' = tmpP)
                       /\ rpc' = [rpc EXCEPT ![th].st = 1] /\ rows' = rows
                  ELSE /\ rows' = [rows EXCEPT ![rpc[th].i] = rows[rpc[th].i] + (IF PRIVATE THEN tmpP[th] ELSE tmpS)]
                       /\ rpc' = [rpc EXCEPT ![th] = [i |-> NextIter(th, rpc[th].i + 1), st |-> 0]]
                       /\ UNCHANGED <<tmpS, tmpP>>
               /\ UNCHANGED <<C, spc, sown, sloc>>

Next == (\E th \in Thr, s \in Sec : Take(th, s)) \/ (\E s \in Sec : StepSec(s)) \/ (\E th \in Thr : StepRow(th))
Spec == Init /\ [][Next]_vars

Finished == (\A s \in Sec : spc[s] = 5) /\ (\A th \in Thr : rpc[th].i = R)
\* the sequential result: every quadrant holds all terms of the sections writing to it, row r got table entry r+1
SeqResult == /\ \A q \in 1 .. 4 : C[q] = UNION {Terms(s) : s \in {x \in Sec : QuadOf[x] = q}}
             /\ \A r \in 0 .. R - 1 : rows[r] = r + 1
SameAsSequential == Finished => SeqResult
=============================================================================
