import tlc2.value.impl.SetEnumValue;
import tlc2.value.impl.Value;
import tlc2.value.impl.ValueVec;
import tlc2.value.impl.IntValue;

/* TLC module override for GF2!Xor: symmetric difference of two finite sets by a linear merge of the
 * normalized (sorted) element vectors. Semantically identical to (a \ b) \cup (b \ a); checked against
 * that TLA+ definition (GF2!XorD) by spec/mc/MC_GF2. */
public class GF2 {
  public static Value Xor(final Value a, final Value b) {
    final SetEnumValue sa = (SetEnumValue) a.toSetEnum();
    final SetEnumValue sb = (SetEnumValue) b.toSetEnum();
    if (sa == null || sb == null) throw new RuntimeException("GF2!Xor: arguments must be finite enumerable sets");
    sa.normalize();
    sb.normalize();
    final ValueVec ea = sa.elems, eb = sb.elems;
    final int na = ea.size(), nb = eb.size();
    final ValueVec out = new ValueVec(na + nb);
    int i = 0, j = 0;
    while (i < na && j < nb) {
      final Value x = ea.elementAt(i), y = eb.elementAt(j);
      final int c = x.compareTo(y);
      if (c == 0) { i++; j++; }
      else if (c < 0) { out.addElement(x); i++; }
      else { out.addElement(y); j++; }
    }
    while (i < na) out.addElement(ea.elementAt(i++));
    while (j < nb) out.addElement(eb.elementAt(j++));
    return new SetEnumValue(out, true);
  }

  /* least / greatest element of a non-empty finite set of integers: first / last element of the
   * normalized vector (the TLA+ definitions fold over the set) */
  public static Value SetMin(final Value s) {
    final SetEnumValue ss = (SetEnumValue) s.toSetEnum();
    if (ss == null || ss.size() == 0) throw new RuntimeException("GF2!SetMin: non-empty finite set expected");
    ss.normalize();
    return ss.elems.elementAt(0);
  }

  public static Value SetMax(final Value s) {
    final SetEnumValue ss = (SetEnumValue) s.toSetEnum();
    if (ss == null || ss.size() == 0) throw new RuntimeException("GF2!SetMax: non-empty finite set expected");
    ss.normalize();
    return ss.elems.elementAt(ss.elems.size() - 1);
  }
}
