------------------------------- MODULE GF2 -------------------------------
(***************************************************************************)
(* Mathematics of dense matrices over GF(2): the oracle of the whole       *)
(* verification (DESIGN.md 4.1).  Nothing in here is derived from m4ri's   *)
(* code.  A matrix is a record [m, n, r] with r a function from row index  *)
(* 0..m-1 to the SET of column indices (0-based) holding a one.            *)
(*                                                                         *)
(* Executable definitions (used at real sizes) are written with the TLC    *)
(* idioms of DESIGN.md 4.6 (TLCEval around rebuilt functions, FoldSet).    *)
(* Their declarative twins (suffix D) are compared with them for all small *)
(* matrices by spec/mc/MC_GF2.                                             *)
(***************************************************************************)
EXTENDS Naturals, Integers, FiniteSets, FiniteSetsExt, Sequences, TLC

\* symmetric difference.  XorD is the definition; Xor has a Java module override (spec/java/GF2.java:
\* linear merge of the sorted element vectors) that MC_GF2 compares with XorD.
XorD(a, b) == (a \ b) \cup (b \ a)
Xor(a, b) == (a \ b) \cup (b \ a)
\* least / greatest element of a non-empty set of integers (FiniteSetsExt!Min/Max are quadratic
\* CHOOSE definitions); Java override: first / last element of the normalized set.
SetMinD(S) == CHOOSE x \in S : \A y \in S : x <= y
SetMaxD(S) == CHOOSE x \in S : \A y \in S : x >= y
SetMin(S) == FoldSet(LAMBDA x, acc : IF x < acc THEN x ELSE acc, CHOOSE x \in S : TRUE, S)
SetMax(S) == FoldSet(LAMBDA x, acc : IF x > acc THEN x ELSE acc, CHOOSE x \in S : TRUE, S)

\* TLCEval: force the row function once; a lazy function value would be re-evaluated at every application
Mat(m, n, r) == [m |-> m, n |-> n, r |-> TLCEval(r)]
Rows(A) == 0 .. A.m - 1
Cols(A) == 0 .. A.n - 1

WellFormed(A) == /\ DOMAIN A.r = Rows(A)
                 /\ \A i \in Rows(A) : A.r[i] \subseteq Cols(A)

Zero(m, n) == Mat(m, n, [i \in 0 .. m - 1 |-> {}])
Id(n) == Mat(n, n, [i \in 0 .. n - 1 |-> {i}])
\* the m x n matrix with ones on the main diagonal (what mzd_set_ui(A,1) leaves)
Diag(m, n) == Mat(m, n, [i \in 0 .. m - 1 |-> IF i < n THEN {i} ELSE {}])
IsZero(A) == \A i \in Rows(A) : A.r[i] = {}
SameDims(A, B) == A.m = B.m /\ A.n = B.n
Eq(A, B) == SameDims(A, B) /\ \A i \in Rows(A) : A.r[i] = B.r[i]

Add(A, B) == Mat(A.m, A.n, [i \in Rows(A) |-> Xor(A.r[i], B.r[i])])

\* XOR of the rows R[k], k in S  (FoldSet has a Java implementation)
XorRows(S, R) == FoldSet(LAMBDA k, acc : Xor(acc, R[k]), {}, S)

Mul(A, B) == Mat(A.m, B.n, [i \in Rows(A) |-> XorRows(A.r[i], B.r)])

Transpose(A) == Mat(A.n, A.m, [j \in Cols(A) |-> {i \in Rows(A) : j \in A.r[i]}])

\* the block of A with top-left corner (r0,c0) and dimensions m x n
Sub(A, r0, c0, m, n) ==
  Mat(m, n, [i \in 0 .. m - 1 |-> {c - c0 : c \in {x \in A.r[r0 + i] : x >= c0 /\ x < c0 + n}}])

\* A with the block at (r0,c0) replaced by S
Embed(A, r0, c0, S) ==
  Mat(A.m, A.n, [i \in Rows(A) |->
     IF i >= r0 /\ i < r0 + S.m
     THEN {x \in A.r[i] : x < c0 \/ x >= c0 + S.n} \cup {c + c0 : c \in S.r[i - r0]}
     ELSE A.r[i]])

Concat(A, B) == Mat(A.m, A.n + B.n, [i \in Rows(A) |-> A.r[i] \cup {c + A.n : c \in B.r[i]}])
Stack(A, B) == Mat(A.m + B.m, A.n, [i \in 0 .. A.m + B.m - 1 |-> IF i < A.m THEN A.r[i] ELSE B.r[i - A.m]])

\* upper triangle incl. diagonal / lower triangle incl. diagonal
UpperPart(A) == Mat(A.m, A.n, [i \in Rows(A) |-> {c \in A.r[i] : c >= i}])
LowerPart(A) == Mat(A.m, A.n, [i \in Rows(A) |-> {c \in A.r[i] : c <= i}])
StrictUpper(A) == Mat(A.m, A.n, [i \in Rows(A) |-> {c \in A.r[i] : c > i}])
StrictLower(A) == Mat(A.m, A.n, [i \in Rows(A) |-> {c \in A.r[i] : c < i}])
\* the named triangle with a unit diagonal (square A): what the TRSM routines are specified to read
UnitUpper(A) == Mat(A.m, A.n, [i \in Rows(A) |-> {c \in A.r[i] : c > i} \cup (IF i < A.n THEN {i} ELSE {})])
UnitLower(A) == Mat(A.m, A.n, [i \in Rows(A) |-> {c \in A.r[i] : c < i} \cup (IF i < A.n THEN {i} ELSE {})])
IsUnitUpper(A) == A.m = A.n /\ \A i \in Rows(A) : i \in A.r[i] /\ \A c \in A.r[i] : c >= i
IsUnitLower(A) == A.m = A.n /\ \A i \in Rows(A) : i \in A.r[i] /\ \A c \in A.r[i] : c <= i

-----------------------------------------------------------------------------
(* Elimination.  GJ performs a full Gauss-Jordan reduction; because rows at or
   below the current pivot row never hold a one to the left of the next pivot
   column, the next pivot column is the minimum over those rows and the
   recursion depth is the rank. *)
RECURSIVE GJ(_, _, _, _)
GJ(R, m, r, piv) ==
  LET cand == {i \in r .. m - 1 : R[i] # {}} IN
  IF cand = {} THEN [r |-> R, rank |-> r, piv |-> piv]
  ELSE LET c    == SetMin({SetMin(R[i]) : i \in cand})
           p    == SetMin({i \in cand : c \in R[i]})
           prow == R[p]
           R2   == TLCEval([i \in 0 .. m - 1 |->
                      IF i = r THEN prow
                      ELSE LET x == IF i = p THEN R[r] ELSE R[i]
                           IN IF c \in x THEN Xor(x, prow) ELSE x])
       IN GJ(R2, m, r + 1, Append(piv, c))

Elim(A) == GJ(A.r, A.m, 0, <<>>)
RREF(A) == Mat(A.m, A.n, Elim(A).r)
Rank(A) == Elim(A).rank
PivotCols(A) == Elim(A).piv      \* sequence, strictly increasing = column rank profile

RowNZ(A, i) == A.r[i] # {}
IsREF(A) == /\ \A i \in Rows(A) : ~RowNZ(A, i) => \A j \in Rows(A) : j > i => ~RowNZ(A, j)
            /\ \A i \in Rows(A) : (i + 1 < A.m /\ RowNZ(A, i + 1)) => SetMin(A.r[i]) < SetMin(A.r[i + 1])
IsRREF(A) == /\ IsREF(A)
             /\ \A i \in Rows(A) : RowNZ(A, i) =>
                   \A j \in Rows(A) : j # i => SetMin(A.r[i]) \notin A.r[j]
RowSpaceEq(A, B) == A.n = B.n /\
   LET EA == Elim(A) EB == Elim(B) IN
     EA.rank = EB.rank /\ \A i \in 0 .. EA.rank - 1 : EA.r[i] = EB.r[i]

\* A*X = B solvable  <=>  rank [A | B] = rank A
Consistent(A, B) == Rank(Concat(A, B)) = Rank(A)

IsInverse(A, B) == A.m = A.n /\ SameDims(A, B) /\ Eq(Mul(A, B), Id(A.n)) /\ Eq(Mul(B, A), Id(A.n))

-----------------------------------------------------------------------------
(* Permutations in LAPACK swap form: P is a sequence, P[i+1] is the index that
   position i is swapped with. *)
SwapF(f, a, b) == IF a = b THEN f ELSE [f EXCEPT ![a] = f[b], ![b] = f[a]]

RECURSIVE SwapsAsc(_, _, _, _)
SwapsAsc(f, P, i, hi) == IF i > hi THEN f ELSE SwapsAsc(SwapF(f, i, P[i + 1]), P, i + 1, hi)
RECURSIVE SwapsDesc(_, _, _, _)
SwapsDesc(f, P, i, lo) == IF i < lo THEN f ELSE SwapsDesc(SwapF(f, i, P[i + 1]), P, i - 1, lo)

\* row swaps i <-> P[i] for ascending i  (P*A in m4ri's convention: mzd_apply_p_left)
ApplyPLeft(A, P) == Mat(A.m, A.n, SwapsAsc(A.r, P, 0, Min({Len(P), A.m}) - 1))
\* ... for descending i (P^T * A)
ApplyPLeftTrans(A, P) == Mat(A.m, A.n, SwapsDesc(A.r, P, Min({Len(P), A.m}) - 1, 0))

\* who[p] = original column now at position p, after swapping positions
ColsBy(A, who) == Mat(A.m, A.n, [i \in Rows(A) |-> {p \in Cols(A) : who[p] \in A.r[i]}])
IdCols(A) == [c \in Cols(A) |-> c]
\* column swaps i <-> P[i] for descending i (A*P: mzd_apply_p_right)
ApplyPRight(A, P) == ColsBy(A, SwapsDesc(IdCols(A), P, Min({Len(P), A.n}) - 1, 0))
\* ... ascending i (A*P^T: mzd_apply_p_right_trans)
ApplyPRightTrans(A, P) == ColsBy(A, SwapsAsc(IdCols(A), P, 0, Min({Len(P), A.n}) - 1))

RowSwap(A, a, b) == Mat(A.m, A.n, SwapF(A.r, a, b))
ColSwapRows(A, a, b, r0, r1) ==   \* swap columns a,b in rows r0 .. r1-1
  Mat(A.m, A.n, [i \in Rows(A) |->
     IF i >= r0 /\ i < r1 /\ ((a \in A.r[i]) # (b \in A.r[i])) THEN Xor(A.r[i], {a, b}) ELSE A.r[i]])
ColSwap(A, a, b) == ColSwapRows(A, a, b, 0, A.m)

\* permutation matrix of "row swaps ascending": PermMat(P,n) * A = ApplyPLeft(A,P)
PermMat(P, n) == ApplyPLeft(Id(n), P)

ValidLapack(P, len) == Len(P) = len /\ \A i \in 0 .. len - 1 : P[i + 1] >= i /\ P[i + 1] < len

-----------------------------------------------------------------------------
(* Content pattern shared with the harness (vh_gen.c: patbit). All arithmetic < 2^31. *)
PatBit(i, j, seed) ==
  (((i + 1) * 7919 + (j + 1) * 104729 + seed * 31337 + (((i + 1) * (j + 1)) % 1009)) % 1000003) % 7 < 3
Pat(m, n, seed) == Mat(m, n, [i \in 0 .. m - 1 |-> {j \in 0 .. n - 1 : PatBit(i, j, seed)}])
=============================================================================
