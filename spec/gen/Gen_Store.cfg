SPECIFICATION Spec
CONSTANTS
  Handles = {1, 2, 3, 4, 5, 6}
  RowDims = {1, 2, 3, 65}
  ColDims = {1, 2, 3, 63, 64, 65, 128, 130}
  Seeds = {0, 1, 2, 3}
  ABSTRACT = TRUE
  Depth = 24
CHECK_DEADLOCK FALSE
