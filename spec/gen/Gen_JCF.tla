------------------------------ MODULE Gen_JCF ------------------------------
(***************************************************************************)
(* Generator for C18/JCF: all valid files of small matrices and ALL their   *)
(* single-token corruptions (each token replaced by each value of a         *)
(* corruption alphabet, or by garbage) and truncations (every prefix).      *)
(* Prints one case per line: the harness writes the file and runs the real  *)
(* reader on it; the trace validator recomputes JCF!Parse and judges.       *)
(***************************************************************************)
EXTENDS JCF, Json

VARIABLE cs
AllM(m, n) == {Mat(m, n, r) : r \in [0 .. m - 1 -> SUBSET (0 .. n - 1)]}
\* non-empty rows first (expressible in the format)
Expressible(M) == \A i \in Rows(M) : M.r[i] = {} => \A j \in Rows(M) : j > i => M.r[j] = {}
Bases == {M \in AllM(1, 2) \cup AllM(2, 2) \cup AllM(2, 3) \cup AllM(3, 2) : Expressible(M)}
Alphabet(n) == {0, 1, -1, 2, -2, n + 1, -(n + 1), 1000000, -1000000, 3}

Replace(s, i, v) == [s EXCEPT ![i] = v]
Cases ==
  LET base == {ValidFile(M) : M \in Bases} IN
     {[toks |-> f, gpos |-> 0] : f \in base}
  \* (dimension fields are not replaced by huge values: a 3 x 1000000 matrix is a valid, merely large, file)
  \cup UNION {UNION {{[toks |-> Replace(f, i, v), gpos |-> 0] : v \in (IF i <= 2 THEN Alphabet(f[2]) \ {1000000} ELSE Alphabet(f[2]))} : i \in 1 .. Len(f)} : f \in base}
  \cup UNION {{[toks |-> f, gpos |-> i] : i \in 1 .. Len(f)} : f \in base}                       \* garbage token
  \cup UNION {{[toks |-> SubSeq(f, 1, i), gpos |-> 0] : i \in 0 .. Len(f) - 1} : f \in base}     \* truncation

Init == cs \in Cases
Next == UNCHANGED cs
Spec == Init /\ [][Next]_cs
Emit == PrintT(<<"CASE", ToJson(cs)>>)
=============================================================================
