----------------------------- MODULE Gen_Store -----------------------------
(***************************************************************************)
(* Behaviour generator (spec -> code) for the store machine: explores       *)
(* Store.tla and records every step with its arguments in `hist`.  Run in   *)
(* simulation mode it prints one program per behaviour (PROG line, JSON);   *)
(* the harness family "prog" executes the programs on the real library and  *)
(* TraceStore validates the recorded run against the same specification.    *)
(* MC_Store runs the same step relation breadth-first over smaller          *)
(* constants and checks the store laws.                                     *)
(***************************************************************************)
EXTENDS Store, Json

CONSTANTS Depth
VARIABLES hist, lastw        \* the program so far; the handle the last step wrote through (0 = none)
vars == <<objs, mem, hist, lastw>>

Shapes == RowDims \X ColDims
H2 == Handles \X Handles
H3 == Handles \X Handles \X Handles
Rec(op, f) == [op |-> op] @@ f

Init == StoreInit /\ hist = << >> /\ lastw = 0

Step ==
  \/ \E h \in Handles, s \in Shapes, seed \in Seeds :
        New(h, s[1], s[2], seed) /\ lastw' = h /\ hist' = Append(hist, Rec("new", [h |-> h, m |-> s[1], n |-> s[2], seed |-> seed]))
  \/ \E x \in H2, r0 \in 0 .. 1, c0 \in {0, 64}, m \in {1, 2, 3, 64}, n \in {1, 2, 3, 63, 64, 65} :
        Win(x[1], x[2], r0, c0, m, n) /\ lastw' = 0
        /\ hist' = Append(hist, Rec("win", [h |-> x[1], p |-> x[2], r0 |-> r0, c0 |-> c0, m |-> m, n |-> n]))
  \/ \E h \in Handles : Free(h) /\ lastw' = 0 /\ hist' = Append(hist, Rec("free", [h |-> h]))
  \/ \E x \in H3 : Add3(x[1], x[2], x[3]) /\ lastw' = x[1] /\ hist' = Append(hist, Rec("add", [c |-> x[1], a |-> x[2], b |-> x[3]]))
  \/ \E x \in H2 : x[1] # x[2] /\ Copy2(x[1], x[2]) /\ lastw' = x[1] /\ hist' = Append(hist, Rec("copy", [d |-> x[1], a |-> x[2]]))
  \/ \E x \in H3, acc \in BOOLEAN :
        Mul3(x[1], x[2], x[3], acc) /\ lastw' = x[1]
        /\ hist' = Append(hist, Rec(IF acc THEN "addmul" ELSE "mul", [c |-> x[1], a |-> x[2], b |-> x[3]]))
  \/ \E x \in H2 : Transpose2(x[1], x[2]) /\ lastw' = x[1] /\ hist' = Append(hist, Rec("transpose", [d |-> x[1], a |-> x[2]]))
  \/ \E x \in H2, lr \in 0 .. 1, lc \in {0, 1, 64}, hr \in {1, 2, 3}, hc \in {1, 64, 65, 128} :
        \* (sampling only: destinations of the exact size or one row / a few columns larger, so that this step does not crowd out the others)
        /\ Dm(x[1]) - (hr - lr) \in {0, 1} /\ Dn(x[1]) - (hc - lc) \in {0, 1, 2, 62, 63, 64}
        /\ Submatrix2(x[1], x[2], lr, lc, hr, hc) /\ lastw' = x[1]
        /\ hist' = Append(hist, Rec("submatrix", [d |-> x[1], a |-> x[2], lr |-> lr, lc |-> lc, hr |-> hr, hc |-> hc]))
  \/ \E x \in H2, up \in BOOLEAN : ExtractTri2(x[1], x[2], up) /\ lastw' = x[1]
        /\ hist' = Append(hist, Rec(IF up THEN "extract_u" ELSE "extract_l", [d |-> x[1], a |-> x[2]]))
  \/ \E x \in H2, i \in {0, 2}, j \in 0 .. 1 : ((x[1] = x[2] /\ i # j) \/ (x[1] # x[2] /\ j = 0 /\ Dn(x[1]) - Dn(x[2]) \in {0, 1, 2, 62, 63, 64})) /\ CopyRow2(x[1], i, x[2], j) /\ lastw' = x[1]
        /\ hist' = Append(hist, Rec("copy_row", [d |-> x[1], a |-> x[2], i |-> i, j |-> j]))
  \/ \E x \in H3 : Concat3(x[1], x[2], x[3]) /\ lastw' = x[1] /\ hist' = Append(hist, Rec("concat", [d |-> x[1], a |-> x[2], b |-> x[3]]))
  \/ \E x \in H3 : Stack3(x[1], x[2], x[3]) /\ lastw' = x[1] /\ hist' = Append(hist, Rec("stack", [d |-> x[1], a |-> x[2], b |-> x[3]]))
  \/ \E h \in Handles, v \in 0 .. 1 : SetUi(h, v) /\ lastw' = h /\ hist' = Append(hist, Rec("set_ui", [h |-> h, v |-> v]))
  \/ \E h \in Handles, i \in 0 .. 2, j \in 0 .. 2 : i < j /\ RowSwap2(h, i, j) /\ lastw' = h /\ hist' = Append(hist, Rec("row_swap", [h |-> h, i |-> i, j |-> j]))
  \/ \E h \in Handles, i \in {0, 63}, j \in {1, 64, 129} : ColSwap2(h, i, j) /\ lastw' = h
        /\ hist' = Append(hist, Rec("col_swap", [h |-> h, i |-> i, j |-> j]))
  \/ \E h \in Handles, i \in 0 .. 2, j \in 0 .. 2 : RowAdd2(h, i, j) /\ lastw' = h /\ hist' = Append(hist, Rec("row_add", [h |-> h, src |-> i, dst |-> j]))
  \/ \E h \in Handles : Echelonize(h) /\ lastw' = h /\ hist' = Append(hist, Rec("echelonize", [h |-> h]))
  \* relational steps have no outcome in the generator (values are not tracked there)
  \/ ABSTRACT /\ \E h \in Handles, kind \in {"ple", "pluq"} : PleStep(h, 0, 0, 0, 0, 0) /\ lastw' = h /\ hist' = Append(hist, Rec(kind, [h |-> h]))
  \/ ABSTRACT /\ \E h \in Handles : EchelonStep(h, 0, 0) /\ lastw' = h /\ hist' = Append(hist, Rec("echelonize_nf", [h |-> h]))
  \/ \E x \in H2 : x[1] <= x[2] /\ Dm(x[1]) = Dm(x[2]) /\ Dn(x[1]) = Dn(x[2]) /\ Observe(x[1], x[2]) /\ lastw' = 0
        /\ hist' = Append(hist, Rec(IF x[1] = x[2] THEN "is_zero" ELSE "equal", [a |-> x[1], b |-> x[2]]))

Next == Len(hist) < Depth /\ Step
Spec == Init /\ [][Next]_vars

\* ---- laws (MC_Store) and emission (generator) --------------------------------------------------------
FrameProp == [][lastw' # 0 /\ Live(lastw') /\ objs'[lastw'] = objs[lastw'] => FrameLaw(lastw')]_vars
FreshProp == [][\A h \in Handles : (~Live(h) /\ objs'[h].k = "win") => mem' = mem]_vars
Emit == Len(hist) = Depth => PrintT(<<"PROG", ToJson(hist)>>)
\* witnesses for vacuity (expected to be violated): an aliased in-place addition, a write through a window that overlaps
\* another live window, an owner freed and its handle reused
WitNoAlias == ~(\E i \in 1 .. Len(hist) : hist[i].op = "add" /\ hist[i].c = hist[i].a)
WitNoOverlapWrite == ~(lastw # 0 /\ Live(lastw) /\ \E h \in Handles \ {lastw} : Live(h) /\ objs[h].k = "win" /\ objs[lastw].k = "win" /\ Overlap(h, lastw) /\ ~Same(h, lastw))
=============================================================================
