------------------------------ MODULE Gen_Alloc ------------------------------
(***************************************************************************)
(* Behaviour generator for C14 (spec -> code): explores the allocator       *)
(* specification with the constants of the reduced-capacity build (hook H4: *)
(* NSLOTS = 3 cache slots, MAXB = 2 header blocks, HB = 64 headers per      *)
(* block) and prints one history (shortest path) for every distinct         *)
(* allocator state reached within Depth steps.  The harness replays each    *)
(* history on the real allocator and TraceAlloc validates what it observed. *)
(* Bulk steps create / free a whole header block worth of windows so that   *)
(* block growth, the block limit and unlink-on-empty are within reach.      *)
(***************************************************************************)
EXTENDS Alloc, Json

CONSTANTS Depth, Small     \* Small = handles used by single operations
VARIABLES st, hist
vars == <<st, hist>>

ClassSize(c) ==
  CASE c = "z" -> 0 [] c = "s1" -> 64 [] c = "s2" -> 128 [] c = "s3" -> 96
    [] c = "lt" -> THRESH - 16 [] c = "eq" -> THRESH [] c = "big" -> THRESH + 16
Classes == {"z", "s1", "s2", "eq", "big"}

\* bulk ranges: range b holds the handles Base(b) .. Base(b) + Count(b) - 1
Base(b) == 10 + 64 * (b - 1)
Count(b) == IF b = 1 THEN HB - 1 ELSE HB

RECURSIVE FillFrom(_, _, _, _)
FillFrom(s, h, hi, p) == IF h > hi THEN s ELSE FillFrom(DoWindow(s, h, p).st, h + 1, hi, p)
RECURSIVE DrainAsc(_, _, _)
DrainAsc(s, h, hi) == IF h > hi THEN s ELSE DrainAsc(DoFree(s, h).st, h + 1, hi)
RECURSIVE DrainDesc(_, _, _)
DrainDesc(s, h, lo) == IF h < lo THEN s ELSE DrainDesc(DoFree(s, h).st, h - 1, lo)

Init == st = InitSt /\ hist = << >>

Next ==
  \/ \E h \in Small, c \in Classes : st.objs[h].kind = "none" /\ st' = DoInit(st, h, ClassSize(c)).st
        /\ hist' = Append(hist, [op |-> "init", h |-> h, sz |-> c])
  \/ \E h, p \in Small : st.objs[h].kind = "none" /\ st.objs[p].kind = "owner" /\ st.objs[p].size > 0
        /\ st' = DoWindow(st, h, p).st /\ hist' = Append(hist, [op |-> "win", h |-> h, p |-> p])
  \/ \E h \in Small : st.objs[h].kind # "none"
        /\ ~(\E w \in Handles : st.objs[w].kind = "window" /\ st.objs[w].parent = h)   \* parents outlive their windows
        /\ st' = DoFree(st, h).st /\ hist' = Append(hist, [op |-> "free", h |-> h])
  \/ st' = DoCleanup(st).st /\ hist' = Append(hist, [op |-> "cleanup"])
  \/ \E b \in {1, 2}, p \in Small : st.objs[p].kind = "owner" /\ st.objs[p].size > 0 /\ st.objs[Base(b)].kind = "none"
        /\ st' = FillFrom(st, Base(b), Base(b) + Count(b) - 1, p) /\ hist' = Append(hist, [op |-> "wfill", b |-> b, p |-> p])
  \/ \E b \in {1, 2}, ord \in {"asc", "desc"} : st.objs[Base(b)].kind = "window"
        /\ st' = (IF ord = "asc" THEN DrainAsc(st, Base(b), Base(b) + Count(b) - 1) ELSE DrainDesc(st, Base(b) + Count(b) - 1, Base(b)))
        /\ hist' = Append(hist, [op |-> "wdrain", b |-> b, ord |-> ord])

Spec == Init /\ [][Next]_vars
Bound == Len(hist) < Depth
View == st
Emit == PrintT(<<"HIST", ToJson(hist)>>)
Inv == AllocInv(st)
=============================================================================
