/* vh.h - conformance harness for the TLA+ specification of m4ri (see /verif/DESIGN.md §3).
 *
 * The harness drives the real library and writes one ndjson event per public call; TLC validates
 * the trace against spec/trace/TraceOps.tla. Matrices are logged as the raw memory of their
 * root owner (all width*64 bit positions of every row), so padding bits and bits around a window
 * are part of the logged state. */
#ifndef VH_H
#define VH_H
#include <m4ri/m4ri.h>
#include <setjmp.h>
#include <stdio.h>
#include <stdint.h>
#include <stdlib.h>
#include <string.h>

#define VH_MAXMAT 4096
#define VH_MAXOP 8

typedef struct vh_root {
  mzd_t *M;      /* the owner */
  word *snap;    /* copy of nrows*width words as last logged */
  long line;     /* trace line of that def */
  int live;
} vh_root_t;

typedef struct vh_mat {
  mzd_t *M;
  int root; /* index into roots */
  int r0, c0;
} vh_mat_t;

typedef struct vh_opnd {
  const char *nm;
  char role; /* 'i' read-only, 'o' overwritten, 'b' read and written, 'r' returned fresh */
  mzd_t *M;
  int root, r0, c0, m, n;
  long pre, post;
} vh_opnd_t;

typedef struct vh_ev {
  const char *op;
  char params[1 << 20];   /* permutations of very wide matrices are logged in full */
  int plen;
  vh_opnd_t o[VH_MAXOP];
  int no;
  long ret;
  int die;
  long dlive;   /* change of the number of live heap blocks across the call */
  char diemsg[160];
} vh_ev_t;

typedef struct vh_ctx {
  FILE *f;
  long line;
  vh_root_t roots[VH_MAXMAT];
  int nroots;
  vh_mat_t mats[VH_MAXMAT];
  int nmats;
  uint64_t rng;
  int tid;
  long nev;
  sigjmp_buf jb;
  int armed;
  char diemsg[160];
  int died;
  long curcase;
  uint64_t caseseed;
  int mute;      /* warm-up pass of a case (C10): nothing is logged */
  long live0;    /* live heap blocks when the current call started (leak accounting, C11) */
  const char *fns[48]; /* hook H0: distinct internal routines whose exit marker fired during the current call */
  int nfns;
} vh_ctx_t;

extern __thread vh_ctx_t *CTX;

/* core */
vh_ctx_t *vh_ctx_new(const char *path, uint64_t seed, int tid);
void vh_ctx_close(vh_ctx_t *c);
mzd_t *vh_new(rci_t m, rci_t n);                 /* mzd_init + register as root */
mzd_t *vh_adopt(mzd_t *M);                       /* register library-returned owner */
mzd_t *vh_win(mzd_t *P, rci_t r0, rci_t c0, rci_t r1, rci_t c1); /* window, registered */
void vh_free(mzd_t *M);                          /* unregister + mzd_free */
void vh_free_all(void);
int vh_find_mat(mzd_t *M);

void vh_begin(vh_ev_t *e, const char *op);
void vh_pi(vh_ev_t *e, const char *k, long v);              /* int param */
void vh_pa(vh_ev_t *e, const char *k, const rci_t *a, int n); /* int array param */
void vh_ps(vh_ev_t *e, const char *k, const char *s);       /* string param */
void vh_opnd(vh_ev_t *e, const char *nm, char role, mzd_t *M);
void vh_pre(vh_ev_t *e);
/* run the call: if (VH_CALL(e)) { ...library call... } VH_END(e) */
#define VH_CALL(e) (CTX->nfns = 0, CTX->armed = 1, CTX->died = 0, CTX->live0 = __atomic_load_n(&vh_live_blocks, __ATOMIC_RELAXED), vh_lib_enter(), sigsetjmp(CTX->jb, 1) == 0)
#define VH_END(e) do { vh_lib_leave(); CTX->armed = 0; (e)->die = CTX->died; \
  (e)->dlive = __atomic_load_n(&vh_live_blocks, __ATOMIC_RELAXED) - CTX->live0; \
  if (CTX->died) strncpy((e)->diemsg, CTX->diemsg, sizeof((e)->diemsg) - 1); } while (0)
void vh_result(vh_ev_t *e, const char *nm, mzd_t *R); /* returned matrix: adopt if new */
void vh_post(vh_ev_t *e);
void vh_note(const char *fmt, ...);  /* free-form event line {"e":"note",...} */
void vh_raw(const char *fmt, ...);   /* raw json line */
long vh_def_words(const word *w, int nw); /* def of a word list as bit positions */

/* allocator wrap (vh_wrap.c) */
void vh_lib_enter(void);
void vh_lib_leave(void);
extern int vh_poison_alloc, vh_poison_free;
extern int vh_leakcheck;         /* report leak = change of live blocks minus what the call returned (exact in cache-less builds) */
extern long vh_fail_at;           /* fail the vh_fail_at-th in-library allocation (1-based), 0 = never */
extern long vh_alloc_count;       /* in-library allocation requests so far */
extern long vh_live_blocks;       /* blocks allocated in-library and not yet freed */
extern long vh_live_bytes;
extern int vh_alloc_log;          /* log every in-library request to stderr-fd file */
#define VH_MAXCALLS 4096
typedef struct { char kind; long size; } vh_acall_t;
extern int vh_track;              /* record every wrapped allocator call (kind, size) and keep a live-pointer table */
extern vh_acall_t vh_calls[VH_MAXCALLS];
extern int vh_ncalls, vh_badfree;
void *vh_xmalloc(size_t n);
void vh_xfree(void *p);

/* prng + content (vh_gen.c) */
uint64_t vh_rand(void);
int vh_randint(int lo, int hi); /* inclusive */
void vh_fill_dense(mzd_t *M);
void vh_fill_sparse(mzd_t *M, int per_row);
void vh_fill_ones(mzd_t *M);
void vh_fill_identity(mzd_t *M);
void vh_fill_pattern(mzd_t *M, int seed);
void vh_fill_kind(mzd_t *M, int kind); /* 0 dense 1 sparse 2 zero 3 identity 4 single 5 ones 6 pattern 7 lowrank */
void vh_fill_rankprofile(mzd_t *M, const int *pivcols, int r, int disguise);
void vh_fill_lowrank(mzd_t *M, int r);
void vh_fill_invertible(mzd_t *M);
void vh_fill_sparse_invertible(mzd_t *M);
void vh_fill_raw_junk(mzd_t *M); /* every bit inside ncols random (padding stays 0) */
void vh_perm_random(mzp_t *P, int n);

/* families */
typedef struct vh_args {
  const char *family;
  const char *out;
  uint64_t seed;
  int shard, nshards;
  int tier; /* 0 quick 1 thorough */
  int maxdim;
  int env;  /* C10 environment 0..3 */
  const char *extra;
  long only;  /* run only this case index (-1 = all) */
  int cases;  /* number of cases (0 = family default for the tier) */
} vh_args_t;
int vh_run_family(const vh_args_t *a);
void vh_hooks_install(void);
/* cases are dealt to shards by a hash of the case index, so that `idx % k` choices inside a family are
 * not correlated with the shard number */
static inline unsigned long vh_mix(unsigned long x) { x ^= x >> 16; x *= 0x45d9f3bUL; x ^= x >> 13; x *= 0x2c1b3c6dUL; x ^= x >> 16; return x; }
#define VH_SHARD(a, idx) ((a)->only >= 0 ? (idx) == (a)->only : ((long)(vh_mix((unsigned long)(idx)) % (unsigned long)(a)->nshards) == (a)->shard))

#endif
