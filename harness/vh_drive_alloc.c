/* vh_drive_alloc.c - family "alloc" (C14): allocation histories on the real allocator.
 *  - replay mode (--extra hist=<file>): executes TLC-generated histories (spec/gen/Gen_Alloc), one per
 *    line, each in a forked child so that every history starts from the pristine allocator;
 *  - random mode: long seeded histories at the real capacities (crossing the 64-header block
 *    boundary, the block limit, eviction, sizes around the threshold, zero-area matrices).
 * Every operation is logged with the exact sequence of calls it made to the C heap (from the
 * link-time wrappers) and with the C14 observables: fresh matrix all zero although recycled blocks
 * are poisoned, storage disjoint from every live matrix, canaries of all live matrices intact,
 * no free of a pointer that is not live.  TLC validates the trace against spec/Alloc.tla. */
#include "vh.h"
#include "vh_fam.h"
#include <ctype.h>
#include <m4ri/mmc.h>

#ifdef M4RI_VERIF_MMC_NBLOCKS
#define NSLOTS_EFF M4RI_VERIF_MMC_NBLOCKS
#else
#define NSLOTS_EFF __M4RI_MMC_NBLOCKS
#endif
#ifdef M4RI_VERIF_MZD_CACHE_MAX
#define MAXB_EFF M4RI_VERIF_MZD_CACHE_MAX
#else
#define MAXB_EFF 16
#endif

#define MAXH 1400
typedef struct { mzd_t *M; int win; int parent; uint64_t canary; size_t bytes; } hnd_t;
static hnd_t H[MAXH];

static size_t data_bytes(const mzd_t *M) { return (M->nrows && M->ncols) ? (size_t)M->nrows * M->rowstride * sizeof(word) : 0; }

static void canary_fill(hnd_t *h) {
  mzd_t *M = h->M;
  if (!data_bytes(M)) return;
  uint64_t x = h->canary;
  word lm = (M->ncols % 64) ? ((~(word)0) >> (64 - M->ncols % 64)) : ~(word)0;
  for (rci_t i = 0; i < M->nrows; i++)
    for (wi_t j = 0; j < M->width; j++) {
      x = x * 6364136223846793005ULL + 1442695040888963407ULL;
      M->data[(size_t)i * M->rowstride + j] = (j == M->width - 1) ? (x & lm) : x;
    }
}
static int canary_ok(hnd_t *h) {
  mzd_t *M = h->M;
  if (!data_bytes(M)) return 1;
  uint64_t x = h->canary;
  word lm = (M->ncols % 64) ? ((~(word)0) >> (64 - M->ncols % 64)) : ~(word)0;
  for (rci_t i = 0; i < M->nrows; i++)
    for (wi_t j = 0; j < M->width; j++) {
      x = x * 6364136223846793005ULL + 1442695040888963407ULL;
      if (M->data[(size_t)i * M->rowstride + j] != ((j == M->width - 1) ? (x & lm) : x)) return 0;
    }
  return 1;
}
static int all_canaries(void) {
  for (int i = 0; i < MAXH; i++)
    if (H[i].M && !H[i].win && !canary_ok(&H[i])) return 0;
  return 1;
}
static int is_zero_raw(const mzd_t *M) {
  size_t n = data_bytes(M) / sizeof(word);
  for (size_t i = 0; i < n; i++) if (M->data[i]) return 0;
  return 1;
}
static int disjoint_from_live(int h) {
  mzd_t *M = H[h].M;
  char *a = (char *)M->data, *ae = a + data_bytes(M);
  for (int i = 0; i < MAXH; i++) {
    if (i == h || !H[i].M) continue;
    if (H[i].M == M) return 0; /* header shared */
    if (H[h].win || H[i].win || !data_bytes(H[i].M) || !data_bytes(M)) continue;
    char *b = (char *)H[i].M->data, *be = b + data_bytes(H[i].M);
    if (a < be && b < ae) return 0;
  }
  return 1;
}

static void log_aop(const char *op, int h, int p, long size, int zero, int disj) {
  vh_ctx_t *c = CTX;
  int can = all_canaries();
  fprintf(c->f, "{\"e\":\"aop\",\"op\":\"%s\",\"h\":%d,\"p\":%d,\"size\":%ld,\"obs\":[", op, h, p, size);
  for (int i = 0; i < vh_ncalls; i++) fprintf(c->f, "%s[\"%c\",%ld]", i ? "," : "", vh_calls[i].kind, vh_calls[i].size);
  fprintf(c->f, "],\"zero\":%d,\"disj\":%d,\"canary\":%d,\"badfree\":%d,\"case\":%ld}\n", zero, disj, can, vh_badfree, c->curcase);
  c->line++;
  c->nev++;
  vh_ncalls = 0;
  vh_badfree = 0;
}

/* size classes shared with spec/gen/Gen_Alloc.tla */
static void class_dims(const char *cls, rci_t *r, rci_t *c) {
  size_t thr = __M4RI_MMC_THRESHOLD;
  if (!strcmp(cls, "z")) { *r = 0; *c = 70; }
  else if (!strcmp(cls, "z2")) { *r = 3; *c = 0; }
  else if (!strcmp(cls, "s1")) { *r = 4; *c = 64; }       /* 4 rows x 2 words (rowstride) = 64 bytes */
  else if (!strcmp(cls, "s2")) { *r = 8; *c = 100; }      /* 128 bytes */
  else if (!strcmp(cls, "s3")) { *r = 3; *c = 200; }      /* 3 x 4 words = 96 bytes */
  else if (!strcmp(cls, "eq")) { *r = (rci_t)(thr / 16); *c = 128; }     /* exactly the threshold */
  else if (!strcmp(cls, "lt")) { *r = (rci_t)(thr / 16) - 1; *c = 128; } /* just below */
  else { *r = (rci_t)(thr / 16) + 1; *c = 128; }                         /* "big": above */
}

static void do_init(int h, rci_t r, rci_t c, uint64_t canary) {
  vh_ncalls = 0;
  vh_lib_enter();
  mzd_t *M = mzd_init(r, c);
  vh_lib_leave();
  H[h].M = M; H[h].win = 0; H[h].parent = -1; H[h].canary = canary; H[h].bytes = data_bytes(M);
  int zero = is_zero_raw(M), disj = disjoint_from_live(h);
  int nc = vh_ncalls; /* canary fill makes no allocator calls */
  canary_fill(&H[h]);
  vh_ncalls = nc;
  log_aop("init", h, -1, (long)H[h].bytes, zero, disj);
}
static void do_win(int h, int p) {
  vh_ncalls = 0;
  mzd_t *P = H[p].M;
  mzd_t *W = mzd_init_window(P, 0, 0, P->nrows, P->ncols);
  H[h].M = W; H[h].win = 1; H[h].parent = p; H[h].bytes = 0;
  log_aop("win", h, p, 0, 1, disjoint_from_live(h));
}
static void do_free(int h) {
  vh_ncalls = 0;
  mzd_t *M = H[h].M;
  int pre = all_canaries();
  H[h].M = NULL;
  mzd_free(M);
  log_aop("free", h, -1, (long)H[h].bytes, pre, 1);
}
static void do_cleanup(void) {
  vh_ncalls = 0;
  m4ri_mmc_cleanup();
  log_aop("cleanup", -1, -1, 0, 1, 1);
}
/* end of a history: free everything, finalise, nothing may be retained */
static void do_end(void) {
  for (int i = 0; i < MAXH; i++) if (H[i].M && H[i].win) do_free(i);
  for (int i = 0; i < MAXH; i++) if (H[i].M) do_free(i);
  do_cleanup();
  vh_track = 0;
  m4ri_fini();
  vh_raw("{\"e\":\"aend\",\"live\":%ld,\"case\":%ld}", vh_live_blocks, CTX->curcase);
  CTX->nev++;
}

static void alloc_cfg(void) {
  vh_raw("{\"e\":\"acfg\",\"nslots\":%d,\"thresh\":%ld,\"hb\":64,\"maxb\":%d,\"caches\":%d,\"maxh\":%d}", NSLOTS_EFF, (long)__M4RI_MMC_THRESHOLD, MAXB_EFF,
         __M4RI_ENABLE_MMC, MAXH);
}

/* one history given as a JSON-ish line: [{"op":"init","h":1,"sz":"s1"},{"op":"win","h":2,"p":1},{"op":"free","h":1},{"op":"cleanup"}] */
static void run_history_line(const char *line) {
  const char *q = line;
  vh_raw("{\"e\":\"areset\",\"case\":%ld}", CTX->curcase);
  vh_track = 1;
  memset(H, 0, sizeof H);
  uint64_t gen = 1;
  /* one {...} object per operation; fields in any order */
  while ((q = strchr(q, '{')) != NULL) {
    const char *end = strchr(q, '}');
    if (!end) break;
    char op[16] = {0}, sz[8] = {0}, ord[8] = {0};
    int h = -1, p = -1, b = 0, i;
    const char *t;
    if ((t = strstr(q, "\"op\":\"")) && t < end) { t += 6; i = 0; while (*t && *t != '"' && i < 15) op[i++] = *t++; }
    if ((t = strstr(q, "\"h\":")) && t < end) h = atoi(t + 4);
    if ((t = strstr(q, "\"p\":")) && t < end) p = atoi(t + 4);
    if ((t = strstr(q, "\"b\":")) && t < end) b = atoi(t + 4);
    if ((t = strstr(q, "\"sz\":\"")) && t < end) { t += 6; i = 0; while (*t && *t != '"' && i < 7) sz[i++] = *t++; }
    if ((t = strstr(q, "\"ord\":\"")) && t < end) { t += 7; i = 0; while (*t && *t != '"' && i < 7) ord[i++] = *t++; }
    int base = 10 + 64 * (b - 1), cnt = (b == 1) ? 63 : 64;
    if (!strcmp(op, "init") && h >= 0) { rci_t r, c; class_dims(sz, &r, &c); do_init(h, r, c, gen++ * 0x9E3779B97F4A7C15ULL); }
    else if (!strcmp(op, "win") && h >= 0 && p >= 0) do_win(h, p);
    else if (!strcmp(op, "free") && h >= 0) do_free(h);
    else if (!strcmp(op, "cleanup")) do_cleanup();
    else if (!strcmp(op, "wfill") && b >= 1 && p >= 0) { for (i = 0; i < cnt; i++) do_win(base + i, p); }
    else if (!strcmp(op, "wdrain") && b >= 1) {
      if (!strcmp(ord, "asc")) for (i = 0; i < cnt; i++) do_free(base + i);
      else for (i = cnt - 1; i >= 0; i--) do_free(base + i);
    } else { fprintf(stderr, "alloc: cannot parse history step: %.80s\n", q); exit(2); }
    q = end + 1;
  }
  do_end();
}

static void random_history(const vh_args_t *a, int steps) {
  vh_raw("{\"e\":\"areset\",\"case\":%ld}", CTX->curcase);
  vh_track = 1;
  memset(H, 0, sizeof H);
  static const char *cls[] = {"s1", "s1", "s2", "s2", "s3", "z", "z2", "lt", "eq", "big"};
  int nlive = 0, target = vh_randint(0, 2) ? vh_randint(1, 60) : vh_randint(900, MAXH - 50);
  uint64_t gen = 1;
  for (int s = 0; s < steps; s++) {
    if (s % 200 == 199) target = vh_randint(0, 2) ? vh_randint(0, 80) : vh_randint(600, MAXH - 50);
    int grow = nlive < target ? vh_randint(0, 9) < 8 : vh_randint(0, 9) < 2;
    if (grow && nlive < MAXH - 2) {
      int h = vh_randint(0, MAXH - 1);
      while (H[h].M) h = (h + 1) % MAXH;
      int owners[8], no = 0;
      for (int t = 0; t < 40 && no < 8; t++) { int x = vh_randint(0, MAXH - 1); if (H[x].M && !H[x].win && H[x].bytes) owners[no++] = x; }
      if (no && vh_randint(0, 9) < (target > 300 ? 9 : 4)) do_win(h, owners[vh_randint(0, no - 1)]);
      else { rci_t r, c; class_dims(cls[vh_randint(0, target > 300 ? 6 : 9)], &r, &c); do_init(h, r, c, gen++ * 0x9E3779B97F4A7C15ULL); }
      nlive++;
    } else if (nlive > 0) {
      int h = vh_randint(0, MAXH - 1), tries = 0;
      while (!H[h].M && tries++ < MAXH) h = (h + 1) % MAXH;
      if (H[h].M) {
        /* a parent is only freed once its windows are gone (using a window after that is a user error) */
        int haswin = 0;
        for (int i = 0; i < MAXH; i++) if (H[i].M && H[i].win && H[i].parent == h) haswin = 1;
        if (!haswin) { do_free(h); nlive--; }
      }
    }
    if (vh_randint(0, 400) == 0) do_cleanup();
  }
  do_end();
  (void)a;
}

int fam_alloc(const vh_args_t *a) {
  vh_poison_alloc = 1;
  vh_poison_free = 1;
  alloc_cfg();
  const char *hf = strstr(a->extra, "hist=");
  long idx = 0;
  if (hf) {
    FILE *f = fopen(hf + 5, "r");
    if (!f) { perror(hf + 5); return 2; }
    char *line = NULL;
    size_t cap = 0;
    while (getline(&line, &cap, f) > 0) {
      if (line[0] != '[') continue;
      if (VH_SHARD(a, idx)) {
        vh_case_seed(a, idx);
        VH_CASE(idx)
        run_history_line(line);
        VH_CASE_END
      }
      idx++;
    }
    vh_xfree(line);
    fclose(f);
  } else {
    int n = a->cases ? a->cases : (a->tier ? 64 : 16);
    for (; idx < n; idx++) {
      if (!VH_SHARD(a, idx)) continue;
      vh_case_seed(a, idx);
      VH_CASE(idx)
      random_history(a, a->tier ? 6000 : 2500);
      VH_CASE_END
    }
  }
  return 0;
}
