/* vh_drive_kernels.c - family "kernels" (C19): Gray code book, lookup tables, word-level bit kernels.
 * The data dumped here is judged by TLC (spec/alg/Gray.tla, spec/alg/BitKernels.tla). */
#include "vh.h"
#include "vh_fam.h"
#include <m4ri/parity.h>

static long wl(word w) { return vh_def_words(&w, 1); }

static void dump_code(int k) {
  vh_ev_t e;
  vh_begin(&e, "code");
  vh_pi(&e, "k", k);
  vh_pre(&e);
  /* arrays are too long for the params buffer: written as a raw line that the op event refers to */
  vh_ctx_t *c = CTX;
  fprintf(c->f, "{\"e\":\"arr\",\"ord\":[");
  for (int i = 0; i < (1 << k); i++) fprintf(c->f, "%s%d", i ? "," : "", m4ri_codebook[k]->ord[i]);
  fprintf(c->f, "],\"inc\":[");
  for (int i = 0; i < (1 << k); i++) fprintf(c->f, "%s%d", i ? "," : "", m4ri_codebook[k]->inc[i]);
  fprintf(c->f, "]}\n");
  c->line++;
  vh_pi(&e, "L_arr", c->line);
  /* the transcribed routines themselves, called directly */
  int okg = 1;
  for (int i = 0; i < (1 << k); i++) okg &= (m4ri_gray_code(i, k) == m4ri_codebook[k]->ord[i]);
  vh_pi(&e, "gray_eq_ord", okg);
  vh_post(&e);
}

static void make_table_case(const vh_args_t *a) {
  int k = vh_randint(1, 8);
  int n = vh_dim_small(a->tier ? 320 : 200);
  int m = k + vh_randint(0, 20);
  mzd_t *M = vh_mk_kind(m, n, vh_randint(0, 2) ? 0 : 6);
  int r = vh_randint(0, m - k);
  int c = vh_randint(0, n - 1);
  mzd_t *T = vh_new(1 << k, n);
  rci_t *L = (rci_t *)vh_xmalloc(sizeof(rci_t) * (1 << k));
  for (int i = 0; i < (1 << k); i++) L[i] = -1;
  vh_ev_t e;
  vh_begin(&e, "make_table");
  vh_pi(&e, "r", r); vh_pi(&e, "c", c); vh_pi(&e, "k", k);
  vh_opnd(&e, "M", 'i', M); vh_opnd(&e, "T", 'o', T);
  vh_pre(&e);
  if (VH_CALL(&e)) mzd_make_table(M, r, c, k, T, L);
  VH_END(&e);
  vh_pa(&e, "L", L, 1 << k);
  vh_post(&e);
  vh_xfree(L);
  vh_free_all();
}

static void parity_case(int mode, int w0, int b0) {
  word buf[64];
  memset(buf, 0, sizeof buf);
  if (mode == 0) buf[w0] = (word)1 << b0;                 /* complete basis */
  else for (int i = 0; i < 64; i++) buf[i] = (mode == 1) ? vh_rand() : (vh_rand() & vh_rand() & vh_rand());
  vh_ev_t e;
  vh_begin(&e, "parity64");
  long bl = vh_def_words(buf, 64);
  vh_pi(&e, "L_buf", bl);
  vh_pre(&e);
  word r = 0;
  if (VH_CALL(&e)) r = m4ri_parity64(buf);
  VH_END(&e);
  vh_pi(&e, "L_res", wl(r));
  vh_post(&e);
}

static void masks_case(void) {
  /* all 65 lengths x 64 offsets; each mask logged as a words line; grouped per length */
  for (int n = 0; n <= 64; n++) {
    vh_ev_t e;
    vh_begin(&e, "masks");
    vh_pi(&e, "n", n);
    vh_pre(&e);
    word left = __M4RI_LEFT_BITMASK(n);
    vh_pi(&e, "L_left", wl(left));
    if (n >= 1) { word right = __M4RI_RIGHT_BITMASK(n); vh_pi(&e, "L_right", wl(right)); } else vh_pi(&e, "L_right", 0);
    /* middle masks for every admissible offset: n + offset <= 64 */
    word mid[64];
    int cnt = 0;
    for (int off = 0; n >= 1 && off + n <= 64; off++) mid[cnt++] = __M4RI_MIDDLE_BITMASK(n, off);
    vh_pi(&e, "nmid", cnt);
    vh_pi(&e, "L_mid", cnt ? vh_def_words(mid, cnt) : 0);
    vh_post(&e);
  }
}

static void swap_case(int mode, int b) {
  word v = mode == 0 ? ((word)1 << b) : vh_rand();
  vh_ev_t e;
  vh_begin(&e, "swap_bits");
  vh_pi(&e, "L_v", wl(v));
  vh_pre(&e);
  word r = 0;
  if (VH_CALL(&e)) r = m4ri_swap_bits(v);
  VH_END(&e);
  vh_pi(&e, "L_res", wl(r));
  vh_post(&e);
}

static void spread_case(void) {
  int len = vh_randint(1, 16), base = vh_randint(0, 40);
  rci_t Q[16];
  int pos = base;
  for (int i = 0; i < len; i++) { pos += vh_randint(i == 0 ? 0 : 1, 3); if (pos < base + i) pos = base + i; if (pos - base > 63) pos = base + 63; Q[i] = pos; }
  /* strictly increasing positions inside one word */
  for (int i = 1; i < len; i++) if (Q[i] <= Q[i - 1]) Q[i] = Q[i - 1] + 1;
  if (Q[len - 1] - base > 63) { for (int i = 0; i < len; i++) Q[i] = base + i; }
  word from = vh_rand();
  vh_ev_t e;
  vh_begin(&e, "spread_shrink");
  vh_pi(&e, "len", len); vh_pi(&e, "base", base); vh_pa(&e, "Q", Q, len);
  vh_pi(&e, "L_from", wl(from));
  vh_pre(&e);
  word sp = 0, sh = 0, back = 0;
  if (VH_CALL(&e)) {
    sp = m4ri_spread_bits(from & (len < 64 ? (((word)1 << len) - 1) : ~(word)0), Q, len, base);
    sh = m4ri_shrink_bits(from, Q, len, base);
    back = m4ri_shrink_bits(sp, Q, len, base);
  }
  VH_END(&e);
  vh_pi(&e, "L_spread", wl(sp)); vh_pi(&e, "L_shrink", wl(sh)); vh_pi(&e, "L_back", wl(back));
  vh_post(&e);
}

static void lsb_case(int ia, int ib) {
  /* ia, ib in 0..64: 64 means the zero word; otherwise the single bit (plus random higher bits) */
  word a = ia == 64 ? 0 : ((word)1 << ia), b = ib == 64 ? 0 : ((word)1 << ib);
  if (ia < 63 && vh_randint(0, 1)) a |= vh_rand() << (ia + 1);
  if (ib < 63 && vh_randint(0, 1)) b |= vh_rand() << (ib + 1);
  vh_ev_t e;
  vh_begin(&e, "lesser_lsb");
  vh_pi(&e, "L_a", wl(a)); vh_pi(&e, "L_b", wl(b));
  vh_pre(&e);
  if (VH_CALL(&e)) e.ret = m4ri_lesser_LSB(a, b);
  VH_END(&e);
  vh_post(&e);
}

/* m4ri_word_to_str into a buffer of exactly the documented size (64 + 63/4 + 1 = 80 bytes with colons, 65 without),
 * with guard bytes behind it */
static void word_to_str_case(int colon, word w) {
  char buf[96];
  memset(buf, 0x7e, sizeof buf);
  int need = colon ? 64 + 63 / 4 + 1 : 65;
  vh_ev_t e;
  vh_begin(&e, "word_to_str");
  vh_pi(&e, "colon", colon); vh_pi(&e, "L_w", wl(w));
  vh_pre(&e);
  if (VH_CALL(&e)) m4ri_word_to_str(buf, w, colon);
  VH_END(&e);
  int guard = 1;
  for (int i = need; i < (int)sizeof buf; i++) if (buf[i] != 0x7e) guard = 0;
  rci_t s[96];
  int len = 0;
  while (len < need && buf[len]) { s[len] = (unsigned char)buf[len]; len++; }
  vh_pi(&e, "guard", guard); vh_pi(&e, "terminated", len < need);
  vh_pa(&e, "s", s, len);
  vh_post(&e);
}

/* mzp_copy into NULL / an exact / a longer target, mzp_set_ui */
static void mzp_case(void) {
  int lq = vh_randint(1, 40), lp = vh_randint(0, 2) == 0 ? -1 : lq + vh_pick((int[]){0, 1, 7, 30}, 4);
  mzp_t *Q = mzp_init(lq), *P = lp < 0 ? NULL : mzp_init(lp);
  for (int i = 0; i < lq; i++) Q->values[i] = vh_randint(i, lq - 1);
  if (P) for (int i = 0; i < lp; i++) P->values[i] = 100000 + i;
  vh_ev_t e;
  vh_begin(&e, "mzp_copy");
  vh_pa(&e, "Q", Q->values, lq);
  vh_pi(&e, "lp", lp);
  vh_pre(&e);
  mzp_t *R = NULL;
  if (VH_CALL(&e)) R = mzp_copy(P, Q);
  VH_END(&e);
  if (R) { vh_pa(&e, "R", R->values, R->length); vh_pi(&e, "same", P == NULL || R == P); }
  if (R) { mzp_set_ui(R, 1); vh_pa(&e, "I", R->values, R->length); }
  vh_post(&e);
  if (R) mzp_free(R);
  mzp_free(Q);
}

int fam_kernels(const vh_args_t *a) {
  long idx = 0;
  vh_nofork = 1; /* pure functions, tiny cases */
  for (int k = 1; k <= 16; k++, idx++) if (VH_SHARD(a, idx)) { vh_case_seed(a, idx); dump_code(k); }
  int nt = a->cases ? a->cases : (a->tier ? 600 : 120);
  for (int t = 0; t < nt; t++, idx++) if (VH_SHARD(a, idx)) { vh_case_seed(a, idx); make_table_case(a); }
  for (int w = 0; w < 64; w++) for (int b = 0; b < 64; b++, idx++) if (VH_SHARD(a, idx)) { vh_case_seed(a, idx); parity_case(0, w, b); }
  for (int t = 0; t < (a->tier ? 2000 : 300); t++, idx++) if (VH_SHARD(a, idx)) { vh_case_seed(a, idx); parity_case(1 + t % 2, 0, 0); }
  if (VH_SHARD(a, idx)) { vh_case_seed(a, idx); masks_case(); }
  idx++;
  for (int b = 0; b < 64; b++, idx++) if (VH_SHARD(a, idx)) { vh_case_seed(a, idx); swap_case(0, b); }
  for (int t = 0; t < 200; t++, idx++) if (VH_SHARD(a, idx)) { vh_case_seed(a, idx); swap_case(1, 0); }
  for (int t = 0; t < (a->tier ? 3000 : 600); t++, idx++) if (VH_SHARD(a, idx)) { vh_case_seed(a, idx); spread_case(); }
  for (int ia = 0; ia <= 64; ia++) for (int ib = 0; ib <= 64; ib++, idx++) if (VH_SHARD(a, idx)) { vh_case_seed(a, idx); lsb_case(ia, ib); }
  /* these two write through caller-supplied buffers: each case in its own process, so that an overrun is one recorded crash */
  vh_nofork = getenv("VH_NOFORK") != NULL;
  for (int t = 0; t < 60; t++, idx++) if (VH_SHARD(a, idx)) { vh_case_seed(a, idx); VH_CASE(idx) mzp_case(); VH_CASE_END }
  for (int t = 0; t < 140; t++, idx++)
    if (VH_SHARD(a, idx)) { vh_case_seed(a, idx); VH_CASE(idx) word_to_str_case(t % 2, t < 128 ? (word)1 << (t / 2) : (t < 132 ? 0 : (t < 136 ? ~(word)0 : vh_rand()))); VH_CASE_END }
  return 0;
}
