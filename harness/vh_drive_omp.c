/* vh_drive_omp.c - family "omp" (C16): the multi-core front ends and the internally parallelised
 * loops on shapes large enough for the static chunks (512 rows) to be spread over threads. The same
 * seeded cases run for every OMP_NUM_THREADS and in the sequential build; all traces must be
 * accepted by the specification and be byte-identical. */
#include "vh.h"
#include "vh_fam.h"

/* blocks of sizes nobody asks for again fill the block cache: from then on every release - also those made concurrently by
 * the parallel sections of the multi-core products - has to evict an entry */
static void fill_block_cache(void) {
  mzd_t *T[24];
  for (int i = 0; i < 24; i++) T[i] = mzd_init(1, 64 * (900 + 7 * i));
  for (int i = 0; i < 24; i++) mzd_free(T[i]);
}

static void omp_case(int kind) {
  vh_ev_t e;
  switch (kind) {
  case 0: case 1: case 2: { /* M4RM row loop / Strassen front ends with > 512 rows */
    int m = vh_pick((int[]){513, 600, 1030, 1100, 1291}, 5), l = vh_pick((int[]){64, 65, 100, 130, 200}, 5), n = vh_pick((int[]){64, 70, 128, 129, 190}, 5);
    int route = kind == 0 ? 4 : (kind == 1 ? 7 : 8); /* mul_m4rm, mul, addmul (indices of vh_drive_mul.c) */
    vh_mul_case(route, m, l, n, 0, 0, kind == 0 ? vh_randint(0, 8) : vh_pick((int[]){0, 64, 128, 256}, 4), vh_randint(0, 1));
    return;
  }
  case 3: case 4: { /* mp front ends: four sections + remainder strips that are not multiples of 128 */
    int m = vh_pick((int[]){5, 70, 256, 300, 383, 385, 420, 520}, 8), l = vh_pick((int[]){256, 260, 300, 391}, 4), n = vh_pick((int[]){3, 256, 257, 330, 400}, 5);   /* also fewer rows / columns than threads */
    int full_cache = vh_randint(0, 2) != 0;
    if (full_cache) fill_block_cache();
    vh_mul_case(kind == 3 ? 14 : 15, m, l, n, 0, 0, vh_pick((int[]){0, 64, 128, 256}, 4), vh_randint(0, 1));
    if (full_cache)   /* twice more on the same history */
      for (int r = 0; r < 2; r++) vh_mul_case(kind == 3 ? 14 : 15, m, l, n, 0, 0, vh_pick((int[]){0, 64, 128}, 3), vh_randint(0, 1));
    return;
  }
  default: { /* elimination: process_rows loops over > 512 rows */
    int m = vh_pick((int[]){600, 700, 1030, 1100}, 4), n = vh_pick((int[]){65, 100, 130, 200}, 4);
    mzd_t *A = vh_new(m, n);
    vh_fill_profile(A, vh_pick((int[]){0, 0, 1, 2}, 4));
    int full = vh_randint(0, 1), k = vh_randint(0, 8);
    vh_begin(&e, "echelonize_m4ri");
    vh_pi(&e, "full", full); vh_pi(&e, "k", k); vh_pi(&e, "heur", 0); vh_pi(&e, "thr", 0);
    vh_opnd(&e, "A", 'b', A);
    vh_pre(&e);
    if (VH_CALL(&e)) e.ret = mzd_echelonize_m4ri(A, full, k);
    VH_END(&e);
    vh_post(&e);
    vh_free_all();
  }
  }
}

/* factorisations whose Four-Russians base case has more than 512 rows below a pivot block (its row loops are where an
 * OpenMP work-sharing construct would go), tall and narrow so that the trace validation stays cheap */
static void omp_ple_case(int which, int dense) {
  vh_ev_t e;
  int m = vh_pick((int[]){700, 1100, 1300}, 3), n = vh_pick((int[]){40, 70, 100, 130}, 4);
  mzd_t *A = vh_new(m, n);
  /* dense: every block has full rank, so all rows below the lazily eliminated ones go through the table look-ups */
  if (dense) vh_fill_dense(A); else vh_fill_profile(A, vh_pick((int[]){1, 2, 3}, 3));
  mzp_t *P = mzp_init(m), *Q = mzp_init(n);
  int k = vh_pick((int[]){0, 3, 5, 8}, 4);
  static const char *nm[] = {"ple", "pluq", "_ple_russian", "_pluq_russian"};
  vh_begin(&e, nm[which]);
  vh_pi(&e, "cutoff", 0); vh_pi(&e, "k", k); vh_pi(&e, "big", 0); vh_pi(&e, "isple", which == 0 || which == 2);
  vh_opnd(&e, "A", 'b', A);
  vh_pre(&e);
  if (VH_CALL(&e)) {
    switch (which) {
    case 0: e.ret = mzd_ple(A, P, Q, 0); break;
    case 1: e.ret = mzd_pluq(A, P, Q, 0); break;
    case 2: e.ret = _mzd_ple_russian(A, P, Q, k); break;
    default: e.ret = _mzd_pluq_russian(A, P, Q, k); break;
    }
  }
  VH_END(&e);
  vh_pa(&e, "P", P->values, m);
  vh_pa(&e, "Q", Q->values, n);
  vh_post(&e);
  mzp_free(P); mzp_free(Q);
  vh_free_all();
}

/* elimination whose (last) block holds t*k - d pivots: the parallel row loop of EACH of the six mzd_process_rowsN variants
 * runs over more than 512 rows (static chunks on several threads) */
static void omp_elim_tables_case(int t, int k, int lead) {
  vh_ev_t e;
  int n = lead + t * k - vh_randint(0, 1), m = vh_pick((int[]){600, 1100, 1300}, 3);
  if (n < 1) n = 1;
  mzd_t *A = vh_new(m, n);
  vh_fill_dense(A);
  int full = vh_randint(0, 1);
  vh_begin(&e, "echelonize_m4ri");
  vh_pi(&e, "full", full); vh_pi(&e, "k", k); vh_pi(&e, "heur", 0); vh_pi(&e, "thr", 0);
  vh_opnd(&e, "A", 'b', A);
  vh_pre(&e);
  if (VH_CALL(&e)) e.ret = mzd_echelonize_m4ri(A, full, k);
  VH_END(&e);
  vh_post(&e);
  vh_free_all();
}

int fam_omp(const vh_args_t *a) {
  int ncases = a->cases ? a->cases : (a->tier ? 240 : 48);
  for (long idx = 0; idx < ncases; idx++) {
    if (!VH_SHARD(a, idx)) continue;
    vh_case_seed(a, idx);
    VH_CASE(idx)
    omp_case((int)(idx % 6));
    VH_CASE_END
  }
  long sidx = ncases;
  for (int rep = 0; rep < (a->tier ? 16 : 6); rep++, sidx++) {
    if (!VH_SHARD(a, sidx)) continue;
    vh_case_seed(a, sidx);
    VH_CASE(sidx)
    omp_ple_case(rep % 4, rep % 3 != 2);
    VH_CASE_END
  }
  for (int rep = 0; rep < (a->tier ? 4 : 1); rep++)
    for (int t = 1; t <= 6; t++, sidx++) {
      if (!VH_SHARD(a, sidx)) continue;
      vh_case_seed(a, sidx);
      VH_CASE(sidx)
      omp_elim_tables_case(t, vh_pick((int[]){3, 4, 5, 7, 8}, 5), vh_pick((int[]){0, 0, 60, 128}, 4));
      VH_CASE_END
    }
  return 0;
}
