/* vh_drive_fault.c - family "fault" (C20): for every scenario and every i, the i-th allocation
 * request made by the library during the scenario's call(s) fails; the process must end in the
 * library's error handler (m4ri_die -> diagnostic, abort). Each (scenario, i) runs in a forked
 * child; the child's fate is the event judged by TLC (spec/AllocFault.tla). */
#include "vh.h"
#include "vh_fam.h"
#include <signal.h>
#include <sys/wait.h>
#include <unistd.h>

extern int vh_die_fd;
static int big; /* thorough: shapes that reach the recursive regimes in the small-cache build */

static mzd_t *rnd(rci_t m, rci_t n) { mzd_t *A = mzd_init(m, n); vh_fill_dense(A); return A; }
#define LIB(x) do { vh_lib_enter(); x; vh_lib_leave(); } while (0)

static void s_create(void) { mzd_t *A; LIB(A = mzd_init(70, 130); mzd_free(A)); }
/* storage above the block cache's threshold (the L3 size: 64 KiB in the small-cache build) takes the uncached branches */
static void s_create_big(void) { mzd_t *A; LIB(A = mzd_init(1100, 1100); mzd_free(A)); }
static void s_copy_big(void) { mzd_t *A = rnd(1030, 1100); LIB(mzd_copy(NULL, A)); }
static void s_window(void) { mzd_t *A = mzd_init(70, 130), *W; LIB(W = mzd_init_window(A, 1, 64, 60, 130); mzd_free(W)); }
static void s_many_headers(void) { mzd_t *A = mzd_init(4, 64); mzd_t *W[70]; LIB(for (int i = 0; i < 70; i++) W[i] = mzd_init_window(A, 0, 0, 4, 64)); (void)W; }
/* more live headers than all header blocks hold (16 blocks of 64): the headers beyond are allocated one by one */
static void s_beyond_header_blocks(void) { mzd_t *A = mzd_init(4, 64); static mzd_t *W[1100]; LIB(for (int i = 0; i < 1100; i++) W[i] = mzd_init_window(A, 0, 0, 4, 64)); (void)W; }
static void s_mul_naive(void) { mzd_t *A = rnd(40, 50), *B = rnd(50, 30); LIB(mzd_mul_naive(NULL, A, B)); }
static void s_mul_naive_wide(void) { mzd_t *A = rnd(40, 50), *B = rnd(50, 130); LIB(mzd_mul_naive(NULL, A, B)); }
static void s_mul_m4rm(void) { mzd_t *A = rnd(70, 130), *B = rnd(130, 100); LIB(mzd_mul_m4rm(NULL, A, B, 0)); }
static void s_addmul_m4rm(void) { mzd_t *A = rnd(70, 130), *B = rnd(130, 100), *C = rnd(70, 100); LIB(mzd_addmul_m4rm(C, A, B, 3)); }
static void s_mul_strassen(void) { int d = big ? 300 : 200; mzd_t *A = rnd(d, d + 7), *B = rnd(d + 7, d + 1); LIB(mzd_mul(NULL, A, B, 64)); }
static void s_addmul_strassen(void) { int d = 200; mzd_t *A = rnd(d, d), *B = rnd(d, d + 3), *C = rnd(d, d + 3); LIB(mzd_addmul(C, A, B, 64)); }
static void s_sqr(void) { mzd_t *A = rnd(200, 200); LIB(mzd_mul(NULL, A, A, 64)); }
static void s_mul_windows(void) { mzd_t *P = rnd(100, 300), *A = mzd_init_window(P, 0, 64, 90, 190), *B = rnd(126, 70); LIB(mzd_mul(NULL, A, B, 0)); }
#if __M4RI_HAVE_OPENMP
static void s_mul_mp(void) { mzd_t *A = rnd(300, 300), *B = rnd(300, 300); LIB(mzd_mul_mp(NULL, A, B, 64)); }
#endif
static void s_ech_naive(void) { mzd_t *A = rnd(60, 90); LIB(mzd_echelonize_naive(A, 1)); }
static void s_ech_m4ri(void) { mzd_t *A = rnd(120, 150); LIB(mzd_echelonize_m4ri(A, 1, 0)); }
static void s_ech_m4ri_nf(void) { mzd_t *A = rnd(120, 150); LIB(mzd_echelonize_m4ri(A, 0, 4)); }
static void s_ech_pluq(void) { mzd_t *A = rnd(120, 150); LIB(mzd_echelonize_pluq(A, 1)); }
static void s_ech_hybrid(void) { mzd_t *A = rnd(100, 100); vh_fill_sparse(A, 2); LIB(mzd_echelonize(A, 1)); }
static void s_top_ech(void) { mzd_t *A = rnd(100, 120); mzd_echelonize_m4ri(A, 0, 0); LIB(mzd_top_echelonize_m4ri(A, 0)); }
static void s_ple(void) { mzd_t *A = big ? rnd(600, 900) : rnd(130, 200); mzp_t *P = mzp_init(A->nrows), *Q = mzp_init(A->ncols); LIB(mzd_ple(A, P, Q, 0)); }
static void s_pluq(void) { mzd_t *A = big ? rnd(70, 8200) : rnd(130, 200); mzp_t *P = mzp_init(A->nrows), *Q = mzp_init(A->ncols); LIB(mzd_pluq(A, P, Q, 0)); }
static void s_ple_naive(void) { mzd_t *A = rnd(40, 60); mzp_t *P = mzp_init(40), *Q = mzp_init(60); LIB(_mzd_ple_naive(A, P, Q)); }
static void s_mzp(void) { mzp_t *P, *W, *C; LIB(P = mzp_init(100); W = mzp_init_window(P, 10, 50); C = mzp_copy(NULL, P); mzp_free_window(W); mzp_free(C); mzp_free(P)); }
static void s_inv(void) { mzd_t *A = mzd_init(130, 130); vh_fill_invertible(A); LIB(mzd_inv_m4ri(NULL, A, 0)); }
static void s_inv_naive(void) { mzd_t *A = mzd_init(70, 70); vh_fill_invertible(A); mzd_t *I = mzd_init(70, 70); vh_fill_identity(I); LIB(mzd_invert_naive(NULL, A, I)); }
static void s_trtri(void) { int n = big ? 400 : 200; mzd_t *U = rnd(n, n); for (int i = 0; i < n; i++) { for (int j = 0; j < i; j++) U->data[(size_t)i * U->rowstride + j / 64] &= ~((word)1 << (j % 64)); U->data[(size_t)i * U->rowstride + i / 64] |= (word)1 << (i % 64); } LIB(mzd_trtri_upper(U)); }
static void s_trsm(int v) { int n = big ? 300 : 150; mzd_t *T = rnd(n, n); for (int i = 0; i < n; i++) T->data[(size_t)i * T->rowstride + i / 64] |= (word)1 << (i % 64);
  mzd_t *B = (v >= 2) ? rnd(n, 100) : rnd(100, n);
  LIB(switch (v) { case 0: mzd_trsm_upper_right(T, B, 0); break; case 1: mzd_trsm_lower_right(T, B, 0); break; case 2: mzd_trsm_lower_left(T, B, 0); break; default: mzd_trsm_upper_left(T, B, 0); }); }
static void s_trsm0(void) { s_trsm(0); } static void s_trsm1(void) { s_trsm(1); } static void s_trsm2(void) { s_trsm(2); } static void s_trsm3(void) { s_trsm(3); }
static void s_solve(void) { mzd_t *A = rnd(100, 120), *B = rnd(120, 30); for (int i = 100; i < 120; i++) B->data[(size_t)i * B->rowstride] = 0; LIB(mzd_solve_left(A, B, 0, 1)); }
static void s_solve_tall(void) { mzd_t *A = rnd(120, 70), *B = rnd(120, 65); LIB(mzd_solve_left(A, B, 0, 1)); }
static void s_kernel(void) { mzd_t *A = rnd(60, 130); LIB(mzd_kernel_left_pluq(A, 0)); }
static void s_transpose(void) { mzd_t *A = rnd(100, 130); LIB(mzd_transpose(NULL, A)); }
static void s_transpose_win(void) { mzd_t *A = rnd(100, 130), *P = rnd(140, 200), *D = mzd_init_window(P, 1, 64, 131, 164); LIB(mzd_transpose(D, A)); }
static void s_transpose_srcwin(void) { mzd_t *P = rnd(100, 300), *A = mzd_init_window(P, 0, 64, 90, 130); LIB(mzd_transpose(NULL, A)); }
static void s_apply_p(void) { mzd_t *A = rnd(70, 130); mzp_t *P = mzp_init(130); for (int i = 0; i < 130; i++) P->values[i] = vh_randint(i, 129);
  mzp_t *R = mzp_init(70); for (int i = 0; i < 70; i++) R->values[i] = vh_randint(i, 69);
  LIB(mzd_apply_p_right(A, P); mzd_apply_p_right_trans(A, P); mzd_apply_p_left(A, R); mzd_apply_p_left_trans(A, R)); }
static void s_movers(void) { mzd_t *A = rnd(40, 100), *B = rnd(40, 70), *C = rnd(30, 100);
  LIB(mzd_concat(NULL, A, B); mzd_stack(NULL, A, C); mzd_submatrix(NULL, A, 3, 7, 30, 90); mzd_copy(NULL, A); mzd_add(NULL, A, A); mzd_extract_u(NULL, A); mzd_extract_l(NULL, A)); }
static void s_djb(void) { mzd_t *A = rnd(big ? 150 : 80, big ? 200 : 100), *V = rnd(A->ncols, 70), *W = mzd_init(A->nrows, 70); djb_t *z; LIB(z = djb_compile(A); djb_apply_mzd(z, W, V); djb_free(z)); }
/* scratch files: one set per driver process (several shards and checks run at the same time) */
static int drv_pid;
static const char *scratch(const char *suffix) { static char fn[64]; snprintf(fn, sizeof fn, "/tmp/vh_fault_%d%s", drv_pid, suffix); return fn; }
static void s_png_write(void) { mzd_t *A = rnd(33, 77); LIB(mzd_to_png(A, scratch(".png"), 1, "c", 0)); }
static void s_png_read(void) { mzd_t *A = rnd(33, 77); mzd_to_png(A, scratch("_r.png"), 1, NULL, 0); LIB(mzd_from_png(scratch("_r.png"), 0)); }
static void s_jcf_read(void) { FILE *f = fopen(scratch(".jcf"), "w"); fprintf(f, "3 5 2 4\n-1\n2\n-3\n5\n"); fclose(f); LIB(mzd_from_jcf(scratch(".jcf"), 0)); }
static void s_from_str(void) { LIB(mzd_from_str(3, 3, "101010111")); }
static void s_codes(void) { LIB(m4ri_destroy_all_codes(); m4ri_build_all_codes()); }

typedef struct { const char *name; void (*fn)(void); } scn_t;
static const scn_t SCN[] = {
  {"create", s_create}, {"create_big", s_create_big}, {"copy_big", s_copy_big}, {"window", s_window}, {"many_headers", s_many_headers}, {"beyond_header_blocks", s_beyond_header_blocks}, {"mul_naive", s_mul_naive}, {"mul_naive_wide", s_mul_naive_wide},
  {"mul_m4rm", s_mul_m4rm}, {"addmul_m4rm", s_addmul_m4rm}, {"mul_strassen", s_mul_strassen}, {"addmul_strassen", s_addmul_strassen}, {"sqr", s_sqr},
  {"mul_windows", s_mul_windows},
#if __M4RI_HAVE_OPENMP
  {"mul_mp", s_mul_mp},
#endif
  {"ech_naive", s_ech_naive}, {"ech_m4ri", s_ech_m4ri}, {"ech_m4ri_nf", s_ech_m4ri_nf}, {"ech_pluq", s_ech_pluq}, {"ech_hybrid", s_ech_hybrid}, {"top_ech", s_top_ech},
  {"ple", s_ple}, {"pluq", s_pluq}, {"ple_naive", s_ple_naive}, {"mzp", s_mzp}, {"inv_m4ri", s_inv}, {"inv_naive", s_inv_naive}, {"trtri", s_trtri},
  {"trsm_upper_right", s_trsm0}, {"trsm_lower_right", s_trsm1}, {"trsm_lower_left", s_trsm2}, {"trsm_upper_left", s_trsm3},
  {"solve", s_solve}, {"solve_tall", s_solve_tall}, {"kernel", s_kernel}, {"transpose", s_transpose}, {"transpose_dst_window", s_transpose_win}, {"transpose_src_window", s_transpose_srcwin},
  {"apply_p", s_apply_p}, {"movers", s_movers}, {"djb", s_djb}, {"png_write", s_png_write}, {"png_read", s_png_read}, {"jcf_read", s_jcf_read}, {"from_str", s_from_str},
  {"codes", s_codes}, {NULL, NULL}};

/* run scenario in a child with the i-th in-library allocation failing (i = 0: count only).
 * returns fate: 'D' died through m4ri_die then SIGABRT, 'R' returned normally, 'S' other signal, 'A' abort without the library's handler, 'X' exit */
static int run_child(const scn_t *s, long i, long *count, int *sig, uint64_t seed) {
  int pp[2];
  if (pipe(pp)) { perror("pipe"); exit(2); }
  fflush(CTX->f);
  pid_t pid = fork();
  if (pid == 0) {
    close(pp[0]);
    int devnull = open("/dev/null", 1);
    if (devnull >= 0) { dup2(devnull, 2); dup2(devnull, 1); }
    vh_die_fd = pp[1];
    CTX->rng = seed;
    vh_fail_at = i;
    vh_alloc_count = 0;
    s->fn();
    long c = vh_alloc_count;
    char buf[1 + sizeof(long)];
    buf[0] = 'R';
    memcpy(buf + 1, &c, sizeof c);
    if (write(pp[1], buf, sizeof buf) < 0) {}
    _exit(0);
  }
  close(pp[1]);
  char buf[64];
  ssize_t got = 0, k;
  while ((k = read(pp[0], buf + got, sizeof(buf) - got)) > 0) got += k;
  close(pp[0]);
  int st = 0;
  waitpid(pid, &st, 0);
  *sig = WIFSIGNALED(st) ? WTERMSIG(st) : 0;
  int saw_die = 0, saw_ret = 0;
  for (ssize_t j = 0; j < got; j++) { if (buf[j] == 'D') saw_die = 1; if (buf[j] == 'R' && j == 0) saw_ret = 1; }
  if (saw_ret && got >= (ssize_t)(1 + sizeof(long))) { memcpy(count, buf + 1, sizeof(long)); return 'R'; }
  if (saw_die && WIFSIGNALED(st) && WTERMSIG(st) == SIGABRT) return 'D';
  if (WIFSIGNALED(st)) return WTERMSIG(st) == SIGABRT ? 'A' : 'S';
  return 'X';
}

int fam_fault(const vh_args_t *a) {
  big = 1; /* shapes that reach the recursive regimes (small-cache build) in both tiers: a run costs milliseconds */
  vh_nofork = 1;
  drv_pid = (int)getpid();
  long idx = 0;
  for (const scn_t *s = SCN; s->name; s++, idx++) {
    if (!VH_SHARD(a, idx)) continue;
    if (*a->extra && strncmp(a->extra, "scn=", 4) == 0 && strcmp(a->extra + 4, s->name)) continue;
    vh_case_seed(a, idx);
    uint64_t seed = CTX->rng;
    long n = 0, dummy = 0;
    int sig = 0;
    int f0 = run_child(s, 0, &n, &sig, seed);
    vh_raw("{\"e\":\"fscn\",\"scn\":\"%s\",\"n\":%ld,\"clean\":\"%c\",\"case\":%ld}", s->name, n, f0, idx);
    if (f0 != 'R') { CTX->nev++; continue; }
    for (long i = 1; i <= n; i++) {
      dummy = -1;
      int fate = run_child(s, i, &dummy, &sig, seed);
      if (fate == 'R' && dummy >= 0 && dummy < i) fate = 'N';   /* returned after fewer than i requests: nothing failed in this run */
      vh_raw("{\"e\":\"fault\",\"scn\":\"%s\",\"i\":%ld,\"n\":%ld,\"fate\":\"%c\",\"sig\":%d,\"case\":%ld}", s->name, i, n, fate, sig, idx);
      CTX->nev++;
    }
    vh_raw("{\"e\":\"fend\",\"scn\":\"%s\",\"n\":%ld}", s->name, n);
  }
  unlink(scratch(".png")); unlink(scratch("_r.png")); unlink(scratch(".jcf"));
  return 0;
}
