/* vh_fam.h - driver families */
#ifndef VH_FAM_H
#define VH_FAM_H
#include "vh.h"
void vh_case_seed(const vh_args_t *a, long idx);
/* case isolation: each case runs in a forked child (unless VH_NOFORK is set); a child that dies is
 * recorded as {"e":"crash",...} and the driver goes on with the next case. */
int vh_case_fork(long idx);   /* 1: run the case now (child or no-fork mode); 0: case already done */
void vh_case_end(void);
/* environments (C10): vh_npass = 2 runs every case twice in the same process - a muted warm-up pass that
 * leaves freed blocks of exactly the sizes the case needs in the block cache, then (after filling every
 * cached block with ones) the logged pass, with the same random stream */
extern int vh_npass;
extern __thread int vh_pass;
void vh_pass_begin(void);
#define VH_CASE(idx) if (vh_case_fork(idx)) { for (vh_pass = vh_npass; vh_pass > 0; vh_pass--) { vh_pass_begin();
#define VH_CASE_END } vh_case_end(); }
extern int vh_nofork;

int fam_mul(const vh_args_t *a);
void vh_mul_case(int route, int m, int l, int n, int kindA, int kindB, int param, int cnull);

/* operand factory: a fresh owner, or (views mode, C09) a window at a random placement inside a
 * larger junk-filled parent. force: -1 per global mode, 0 owner, 1 window */
extern int vh_views;
extern __thread int vh_force_w0;
mzd_t *vh_mk(rci_t m, rci_t n, int force);
mzd_t *vh_mk_kind(rci_t m, rci_t n, int kind);
int vh_pick(const int *list, int n);
int vh_dim_small(int cap); /* boundary-biased dimension in 1..cap */
void vh_simple_begin(vh_ev_t *e, const char *op);

int fam_move(const vh_args_t *a);
int fam_rowops(const vh_args_t *a);
int fam_obs(const vh_args_t *a);
int fam_elim(const vh_args_t *a);
int fam_ple(const vh_args_t *a);
int fam_trsm(const vh_args_t *a);
int fam_inv(const vh_args_t *a);
int fam_solve(const vh_args_t *a);
int fam_kernel(const vh_args_t *a);
int fam_kernels(const vh_args_t *a);
int fam_alloc(const vh_args_t *a);
int fam_fault(const vh_args_t *a);
int fam_io(const vh_args_t *a);
int fam_baddims(const vh_args_t *a);
int fam_threads(const vh_args_t *a);
int fam_omp(const vh_args_t *a);
int fam_prog(const vh_args_t *a);
void vh_firstuse_cases(void);
void vh_fill_profile(mzd_t *M, int style);
#endif
