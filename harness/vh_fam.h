/* vh_fam.h - driver families */
#ifndef VH_FAM_H
#define VH_FAM_H
#include "vh.h"
void vh_case_seed(const vh_args_t *a, long idx);
/* case isolation: each case runs in a forked child (unless VH_NOFORK is set); a child that dies is
 * recorded as {"e":"crash",...} and the driver goes on with the next case. */
int vh_case_fork(long idx);   /* 1: run the case now (child or no-fork mode); 0: case already done */
void vh_case_end(void);
#define VH_CASE(idx) if (vh_case_fork(idx)) {
#define VH_CASE_END vh_case_end(); }
extern int vh_nofork;

int fam_mul(const vh_args_t *a);
void vh_mul_case(int route, int m, int l, int n, int kindA, int kindB, int param, int cnull);
#endif
