/* vh_gen.c - seeded content generation, independent of the library's own routines: every write
 * goes directly to the words of the matrix (respecting the last-word mask, so owners keep zero
 * padding and windows keep foreign bits). */
#include "vh.h"

uint64_t vh_rand(void) {
  uint64_t z = (CTX->rng += 0x9E3779B97F4A7C15ULL);
  z = (z ^ (z >> 30)) * 0xBF58476D1CE4E5B9ULL;
  z = (z ^ (z >> 27)) * 0x94D049BB133111EBULL;
  return z ^ (z >> 31);
}

int vh_randint(int lo, int hi) {
  if (hi <= lo) return lo;
  return lo + (int)(vh_rand() % (uint64_t)(hi - lo + 1));
}

static inline word *rowp(mzd_t *M, rci_t i) { return M->data + (size_t)i * M->rowstride; }
static inline word lastmask(const mzd_t *M) {
  int r = M->ncols % 64;
  return r ? ((~(word)0) >> (64 - r)) : ~(word)0;
}
static inline void setbit(mzd_t *M, rci_t i, rci_t j, int v) {
  word *p = rowp(M, i) + j / 64;
  word b = (word)1 << (j % 64);
  if (v) *p |= b; else *p &= ~b;
}
static inline int getbit(mzd_t *M, rci_t i, rci_t j) { return (rowp(M, i)[j / 64] >> (j % 64)) & 1; }

static void clear_all(mzd_t *M) {
  if (!M->nrows || !M->ncols) return;
  word lm = lastmask(M);
  for (rci_t i = 0; i < M->nrows; i++) {
    word *p = rowp(M, i);
    for (wi_t j = 0; j + 1 < M->width; j++) p[j] = 0;
    p[M->width - 1] &= ~lm;
  }
}

static void put_word(mzd_t *M, rci_t i, wi_t j, word v) {
  word *p = rowp(M, i);
  if (j == M->width - 1) {
    word lm = lastmask(M);
    p[j] = (p[j] & ~lm) | (v & lm);
  } else
    p[j] = v;
}

void vh_fill_dense(mzd_t *M) {
  for (rci_t i = 0; i < M->nrows; i++)
    for (wi_t j = 0; j < M->width; j++) put_word(M, i, j, vh_rand());
}

void vh_fill_raw_junk(mzd_t *M) { vh_fill_dense(M); }

void vh_fill_ones(mzd_t *M) {
  for (rci_t i = 0; i < M->nrows; i++)
    for (wi_t j = 0; j < M->width; j++) put_word(M, i, j, ~(word)0);
}

void vh_fill_sparse(mzd_t *M, int per_row) {
  clear_all(M);
  if (!M->ncols) return;
  for (rci_t i = 0; i < M->nrows; i++)
    for (int t = 0; t < per_row; t++) setbit(M, i, vh_randint(0, M->ncols - 1), 1);
}

void vh_fill_identity(mzd_t *M) {
  clear_all(M);
  for (rci_t i = 0; i < M->nrows && i < M->ncols; i++) setbit(M, i, i, 1);
}

/* Bit(i,j,seed): the arithmetic pattern shared with spec/GF2.tla (Pat): stays below 2^31 */
static int patbit(int i, int j, int seed) {
  long v = ((long)(i + 1) * 7919 + (long)(j + 1) * 104729 + (long)seed * 31337 + (long)((i + 1) * (j + 1)) % 1009) % 1000003;
  return (int)((v % 7) < 3);
}

void vh_fill_pattern(mzd_t *M, int seed) {
  clear_all(M);
  for (rci_t i = 0; i < M->nrows; i++)
    for (rci_t j = 0; j < M->ncols; j++)
      if (patbit(i, j, seed)) setbit(M, i, j, 1);
}

/* A = C * E where E is an r x n echelon matrix with the given pivot columns (random entries to the
 * right of each pivot) and C is m x r of full column rank (unit lower triangular on a random row
 * subset when disguise is set, otherwise [I;0] so that A itself is in echelon form). */
void vh_fill_rankprofile(mzd_t *M, const int *piv, int r, int disguise) {
  clear_all(M);
  int m = M->nrows, n = M->ncols, w = M->width;
  if (r > m) r = m;
  word *E = (word *)vh_xmalloc(sizeof(word) * (size_t)(r + 1) * w);
  memset(E, 0, sizeof(word) * (size_t)(r + 1) * w);
  word lm = lastmask(M);
  for (int t = 0; t < r; t++) {
    word *e = E + (size_t)t * w;
    for (int j = 0; j < w; j++) e[j] = (disguise >= 0) ? vh_rand() : 0;
    /* clear everything left of and at the pivot, then set the pivot */
    int p = piv[t];
    for (int j = 0; j < p / 64; j++) e[j] = 0;
    e[p / 64] &= ~(((word)2 << (p % 64)) - 1);
    e[p / 64] |= (word)1 << (p % 64);
    e[w - 1] &= lm;
    (void)n;
  }
  /* non-pivot columns strictly between consecutive pivots keep random entries only in rows whose
   * pivot is to the left: already true by construction */
  int *rowsel = (int *)vh_xmalloc(sizeof(int) * (m + 1));
  for (int i = 0; i < m; i++) rowsel[i] = i;
  if (disguise > 0)
    for (int i = m - 1; i > 0; i--) {
      int j = vh_randint(0, i);
      int t = rowsel[i]; rowsel[i] = rowsel[j]; rowsel[j] = t;
    }
  for (int i = 0; i < m; i++) {
    word *dst = rowp(M, rowsel[i]);
    for (int t = 0; t < r; t++) {
      int take;
      if (disguise <= 0) take = (t == i);
      else if (i < r) take = (t == i) || (t < i && (vh_rand() & 1));
      else take = (int)(vh_rand() & 1);
      if (take) {
        word *e = E + (size_t)t * w;
        for (int j = 0; j < w - 1; j++) dst[j] ^= e[j];
        dst[w - 1] ^= e[w - 1] & lm;
      }
    }
  }
  vh_xfree(rowsel);
  vh_xfree(E);
}

void vh_fill_lowrank(mzd_t *M, int r) {
  int n = M->ncols;
  if (r > n) r = n;
  if (r > M->nrows) r = M->nrows;
  int *piv = (int *)vh_xmalloc(sizeof(int) * (r + 1));
  /* random increasing pivot columns */
  int *all = (int *)vh_xmalloc(sizeof(int) * (n + 1));
  for (int j = 0; j < n; j++) all[j] = j;
  for (int t = 0; t < r; t++) {
    int j = vh_randint(t, n - 1);
    int x = all[t]; all[t] = all[j]; all[j] = x;
  }
  /* sort first r */
  for (int a = 0; a < r; a++)
    for (int b = a + 1; b < r; b++)
      if (all[b] < all[a]) { int x = all[a]; all[a] = all[b]; all[b] = x; }
  for (int t = 0; t < r; t++) piv[t] = all[t];
  vh_fill_rankprofile(M, piv, r, 1);
  vh_xfree(all);
  vh_xfree(piv);
}

/* random invertible: rows of a unit lower triangular L times unit upper triangular U, rows shuffled */
/* sparse invertible: a row permutation of (identity + a few entries above the diagonal, concentrated in a few late columns):
 * most rows are zero across whole table ranges of an elimination block */
void vh_fill_sparse_invertible(mzd_t *M) {
  int n = M->nrows;
  clear_all(M);
  int *perm = (int *)vh_xmalloc(sizeof(int) * (n + 1));
  for (int i = 0; i < n; i++) perm[i] = i;
  if (vh_randint(0, 1))
    for (int i = n - 1; i > 0; i--) { int j = vh_randint(0, i); int t = perm[i]; perm[i] = perm[j]; perm[j] = t; }
  int ncolsx = vh_randint(1, 3);
  int cx[3];
  for (int t = 0; t < ncolsx; t++) cx[t] = n - 1 - vh_randint(0, n > 12 ? 11 : n - 1);
  for (int i = 0; i < n; i++) {
    setbit(M, perm[i], i, 1);
    for (int t = 0; t < ncolsx; t++)
      if (cx[t] > i && vh_randint(0, 2) == 0) setbit(M, perm[i], cx[t], 1);
    if (vh_randint(0, 15) == 0 && i + 1 < n) setbit(M, perm[i], vh_randint(i + 1, n - 1), 1);
  }
  vh_xfree(perm);
}

void vh_fill_invertible(mzd_t *M) {
  int n = M->nrows, w = M->width;
  clear_all(M);
  word *U = (word *)vh_xmalloc(sizeof(word) * (size_t)(n + 1) * w);
  word lm = lastmask(M);
  for (int i = 0; i < n; i++) {
    word *u = U + (size_t)i * w;
    for (int j = 0; j < w; j++) u[j] = vh_rand();
    for (int j = 0; j < i / 64; j++) u[j] = 0;
    u[i / 64] &= ~(((word)2 << (i % 64)) - 1);
    u[i / 64] |= (word)1 << (i % 64);
    u[w - 1] &= lm;
  }
  int *perm = (int *)vh_xmalloc(sizeof(int) * (n + 1));
  for (int i = 0; i < n; i++) perm[i] = i;
  for (int i = n - 1; i > 0; i--) {
    int j = vh_randint(0, i);
    int t = perm[i]; perm[i] = perm[j]; perm[j] = t;
  }
  for (int i = 0; i < n; i++) {
    word *dst = rowp(M, perm[i]);
    for (int t = 0; t <= i; t++) {
      if (t == i || (vh_rand() & 1)) {
        word *u = U + (size_t)t * w;
        for (int j = 0; j < w; j++) dst[j] ^= u[j];
      }
    }
  }
  vh_xfree(perm);
  vh_xfree(U);
}

void vh_fill_kind(mzd_t *M, int kind) {
  if (!M->nrows || !M->ncols) return;
  switch (kind) {
  case 0: vh_fill_dense(M); break;
  case 1: vh_fill_sparse(M, 3); break;
  case 2: clear_all(M); break;
  case 3: vh_fill_identity(M); break;
  case 4: clear_all(M); setbit(M, vh_randint(0, M->nrows - 1), vh_randint(0, M->ncols - 1), 1); break;
  case 5: vh_fill_ones(M); break;
  case 6: vh_fill_pattern(M, vh_randint(0, 1000)); break;
  case 7: vh_fill_lowrank(M, vh_randint(0, (M->nrows < M->ncols ? M->nrows : M->ncols))); break;
  default: vh_fill_dense(M);
  }
  (void)getbit;
}

void vh_perm_random(mzp_t *P, int n) {
  for (int i = 0; i < P->length; i++) P->values[i] = i;
  for (int i = 0; i < P->length && i < n; i++) P->values[i] = vh_randint(i, n - 1);
}

/* ---- operand factory (views aware) ---- */
#include "vh_fam.h"
int vh_views = 0;

/* views mode: some cases place two operands as disjoint windows side by side in ONE shared parent (as the
 * library itself does with the quadrants of a matrix), and some windows are windows of windows */
static __thread mzd_t *shared_parent = NULL;
static __thread int shared_slotw = 0, shared_rows = 0, shared_r0 = 0, shared_used = 0;
__thread int vh_force_w0 = -1;   /* >= 0: the next windows start at exactly this word offset (sweeps over row alignments) */
void vh_mk_reset(void) { shared_parent = NULL; shared_used = 0; }

mzd_t *vh_mk(rci_t m, rci_t n, int force) {
  int win = force < 0 ? vh_views : force;
  if (win == 2) win = vh_randint(0, 1);   /* mixed mode: each operand independently an owner or a window */
  if (!win) return vh_new(m, n);
  static const int r0s[] = {0, 0, 1, 5};
  static const int w0s[] = {0, 1, 1, 2, 3};
  static const int xr[] = {0, 0, 1, 17, 64, 65, 130};
  /* second operand of a shared parent */
  if (shared_parent && shared_used == 1 && m <= shared_rows && n <= shared_slotw - 64) {
    shared_used = 2;
    int c0 = shared_slotw + 64 * vh_randint(0, (shared_slotw - n) / 64 > 1 ? 1 : 0);
    int rr = shared_r0 + vh_randint(0, shared_rows - m > 2 ? 2 : shared_rows - m);
    return vh_win(shared_parent, rr, c0, rr + m, c0 + n);
  }
  int r0 = r0s[vh_randint(0, 3)], w0 = w0s[vh_randint(0, 4)];
  if (vh_force_w0 >= 0) {
    /* plain window at a prescribed word offset inside a parent that continues to the right */
    mzd_t *P0 = vh_new(r0 + m + 1, vh_force_w0 * 64 + n + 70);
    vh_fill_dense(P0);
    return vh_win(P0, r0, vh_force_w0 * 64, r0 + m, vh_force_w0 * 64 + n);
  }
  int below = vh_randint(0, 2) ? vh_randint(1, 3) : 0;
  int right = xr[vh_randint(0, 6)];
  if (!shared_parent && vh_randint(0, 3) == 0 && (long)m * n < 90000) {
    /* open a shared parent: slot 1 holds this operand, slot 2 (same width) is left for the next one */
    shared_slotw = ((w0 * 64 + n + 63) / 64) * 64 + 128;
    shared_rows = m + 3;
    shared_r0 = r0;
    mzd_t *P = vh_new(r0 + shared_rows + below, 2 * shared_slotw + right);
    vh_fill_dense(P);
    shared_parent = P;
    shared_used = 1;
    return vh_win(P, r0, w0 * 64, r0 + m, w0 * 64 + n);
  }
  mzd_t *P = vh_new(r0 + m + below, w0 * 64 + n + right);
  switch (vh_randint(0, 2)) {
  case 0: vh_fill_ones(P); break;
  default: vh_fill_dense(P); break;
  }
  if (vh_randint(0, 4) == 0 && r0 + w0 > 0) {
    /* a window of a window: first the enclosing view (to the end of the parent), then the operand inside it */
    mzd_t *O = vh_win(P, r0 > 0 ? r0 - (r0 > 1 ? 1 : 0) : 0, (w0 > 0 ? w0 - 1 : 0) * 64, P->nrows, P->ncols);
    int ir = r0 > 1 ? 1 : 0, ic = (w0 > 0 ? 1 : 0) * 64;
    return vh_win(O, ir, ic, ir + m, ic + n);
  }
  return vh_win(P, r0, w0 * 64, r0 + m, w0 * 64 + n);
}

mzd_t *vh_mk_kind(rci_t m, rci_t n, int kind) {
  mzd_t *M = vh_mk(m, n, -1);
  if (vh_views && kind == 2) { /* zero content inside a junk parent */
    for (rci_t i = 0; i < m; i++)
      for (rci_t j = 0; j < n; j++) M->data[(size_t)i * M->rowstride + j / 64] &= ~((word)1 << (j % 64));
  } else
    vh_fill_kind(M, kind);
  return M;
}

int vh_pick(const int *list, int n) { return list[vh_randint(0, n - 1)]; }

int vh_dim_small(int cap) {
  static const int b[] = {1, 1, 2, 3, 7, 8, 9, 15, 16, 17, 31, 32, 33, 54, 63, 64, 65, 66, 100, 127, 128, 129, 130, 191, 192, 193, 200, 255, 256, 257, 300, 320};
  for (;;) {
    int d = vh_randint(0, 3) ? b[vh_randint(0, (int)(sizeof(b) / sizeof(int)) - 1)] : vh_randint(1, cap);
    if (d <= cap) return d;
  }
}
