/* vh_core.c - trace context, root snapshots, event logging */
#include "vh.h"
#include <stdarg.h>

__thread vh_ctx_t *CTX = NULL;

#ifdef M4RI_VERIF
/* hook H0: called from the function-exit markers of the library (debug_dump.h) */
extern void (*m4ri_verif_dd)(char const *function, int line);
static void dd_callback(char const *function, int line) {
  vh_ctx_t *c = CTX;
  (void)line;
  if (!c || !c->armed) return;       /* other (OpenMP) threads have no context */
  for (int i = 0; i < c->nfns; i++)
    if (c->fns[i] == function) return; /* __FUNCTION__ literals: pointer comparison is enough per call site */
  for (int i = 0; i < c->nfns; i++)
    if (!strcmp(c->fns[i], function)) return;
  if (c->nfns < 48) c->fns[c->nfns++] = function;
}
#endif

/* installed once by main(), before any thread exists (the callback only touches the calling thread's context) */
void vh_hooks_install(void) {
#ifdef M4RI_VERIF
  m4ri_verif_dd = dd_callback;
#endif
}

vh_ctx_t *vh_ctx_new(const char *path, uint64_t seed, int tid) {
  vh_ctx_t *c = (vh_ctx_t *)vh_xmalloc(sizeof(vh_ctx_t));
  memset(c, 0, sizeof(*c));
  c->f = fopen(path, "w+");
  if (!c->f) { perror(path); exit(2); }
  setvbuf(c->f, NULL, _IOFBF, 1 << 20);
  c->rng = seed * 0x9E3779B97F4A7C15ULL + 0x1234567ULL + (uint64_t)tid * 7919;
  c->tid = tid;
  CTX = c;
  return c;
}

void vh_ctx_close(vh_ctx_t *c) {
  if (c->f) fclose(c->f);
  for (int i = 0; i < c->nroots; i++)
    if (c->roots[i].snap) vh_xfree(c->roots[i].snap);
  vh_xfree(c);
  if (CTX == c) CTX = NULL;
}

static size_t root_words(const mzd_t *M) { return (size_t)M->nrows * (size_t)M->width; }

static void root_copy(const mzd_t *M, word *dst) {
  if (!M->data) return;
  for (rci_t i = 0; i < M->nrows; i++)
    memcpy(dst + (size_t)i * M->width, M->data + (size_t)i * M->rowstride, sizeof(word) * M->width);
}

static int root_same(const mzd_t *M, const word *snap) {
  if (!M->data) return 1;
  for (rci_t i = 0; i < M->nrows; i++)
    if (memcmp(snap + (size_t)i * M->width, M->data + (size_t)i * M->rowstride, sizeof(word) * M->width))
      return 0;
  return 1;
}

static void emit_bits(FILE *f, const word *w, int nw) {
  int first = 1;
  fputc('[', f);
  for (int j = 0; j < nw; j++) {
    word x = w[j];
    while (x) {
      int b = __builtin_ctzll(x);
      x &= x - 1;
      if (!first) fputc(',', f);
      first = 0;
      fprintf(f, "%d", j * 64 + b);
    }
  }
  fputc(']', f);
}

static long def_root(vh_ctx_t *c, int ri) {
  vh_root_t *r = &c->roots[ri];
  if (c->mute) { r->line = 0; return 0; }
  mzd_t *M = r->M;
  if (!r->snap) r->snap = (word *)vh_xmalloc(sizeof(word) * (root_words(M) + 1));
  root_copy(M, r->snap);
  c->line++;
  fprintf(c->f, "{\"e\":\"def\",\"m\":%d,\"n\":%d,\"w\":%d,\"rows\":[", M->nrows, M->ncols, M->width);
  for (rci_t i = 0; i < M->nrows; i++) {
    if (i) fputc(',', c->f);
    emit_bits(c->f, r->snap + (size_t)i * M->width, M->width);
  }
  fputs("]}\n", c->f);
  r->line = c->line;
  return r->line;
}

long vh_def_words(const word *w, int nw) {
  vh_ctx_t *c = CTX;
  if (c->mute) return 0;
  c->line++;
  fprintf(c->f, "{\"e\":\"words\",\"nw\":%d,\"bits\":", nw);
  emit_bits(c->f, w, nw);
  fputs("}\n", c->f);
  return c->line;
}

static int add_root(mzd_t *M) {
  vh_ctx_t *c = CTX;
  int i;
  for (i = 0; i < c->nroots; i++)
    if (!c->roots[i].live) break;
  if (i == c->nroots) {
    if (c->nroots >= VH_MAXMAT) { fprintf(stderr, "vh: too many roots\n"); exit(2); }
    c->nroots++;
  }
  if (c->roots[i].snap) { vh_xfree(c->roots[i].snap); }
  c->roots[i].M = M;
  c->roots[i].snap = NULL;
  c->roots[i].line = 0;
  c->roots[i].live = 1;
  return i;
}

static int add_mat(mzd_t *M, int root, int r0, int c0) {
  vh_ctx_t *c = CTX;
  int i;
  for (i = 0; i < c->nmats; i++)
    if (!c->mats[i].M) break;
  if (i == c->nmats) {
    if (c->nmats >= VH_MAXMAT) { fprintf(stderr, "vh: too many mats\n"); exit(2); }
    c->nmats++;
  }
  c->mats[i].M = M;
  c->mats[i].root = root;
  c->mats[i].r0 = r0;
  c->mats[i].c0 = c0;
  return i;
}

int vh_find_mat(mzd_t *M) {
  vh_ctx_t *c = CTX;
  for (int i = 0; i < c->nmats; i++)
    if (c->mats[i].M == M) return i;
  return -1;
}

mzd_t *vh_adopt(mzd_t *M) {
  if (!M) return M;
  if (vh_find_mat(M) >= 0) return M;
  int r = add_root(M);
  add_mat(M, r, 0, 0);
  return M;
}

mzd_t *vh_new(rci_t m, rci_t n) { return vh_adopt(mzd_init(m, n)); }

mzd_t *vh_win(mzd_t *P, rci_t r0, rci_t c0, rci_t r1, rci_t c1) {
  int pi = vh_find_mat(P);
  if (pi < 0) { fprintf(stderr, "vh_win: unknown parent\n"); exit(2); }
  mzd_t *W = mzd_init_window(P, r0, c0, r1, c1);
  vh_ctx_t *c = CTX;
  add_mat(W, c->mats[pi].root, c->mats[pi].r0 + r0, c->mats[pi].c0 + c0);
  return W;
}

void vh_free(mzd_t *M) {
  if (!M) return;
  vh_ctx_t *c = CTX;
  int i = vh_find_mat(M);
  if (i >= 0) {
    int ri = c->mats[i].root;
    if (c->roots[ri].M == M) {
      c->roots[ri].live = 0;
      c->roots[ri].M = NULL;
    }
    c->mats[i].M = NULL;
  }
  mzd_free(M);
}

void vh_mk_reset(void);
void vh_free_all(void) {
  vh_ctx_t *c = CTX;
  vh_mk_reset();
  /* windows first */
  for (int i = 0; i < c->nmats; i++)
    if (c->mats[i].M && c->roots[c->mats[i].root].M != c->mats[i].M) vh_free(c->mats[i].M);
  for (int i = 0; i < c->nmats; i++)
    if (c->mats[i].M) vh_free(c->mats[i].M);
  c->nmats = 0;
}

void vh_begin(vh_ev_t *e, const char *op) {
  e->op = op;
  e->plen = 0;
  e->params[0] = 0;
  e->no = 0;
  e->ret = 0;
  e->die = 0;
  e->diemsg[0] = 0;
}

static void padd(vh_ev_t *e, const char *fmt, ...) {
  va_list ap;
  va_start(ap, fmt);
  int n = vsnprintf(e->params + e->plen, sizeof(e->params) - e->plen, fmt, ap);
  va_end(ap);
  if (n < 0 || n >= (int)sizeof(e->params) - e->plen) { fprintf(stderr, "vh: params overflow\n"); exit(2); }
  e->plen += n;
}

void vh_pi(vh_ev_t *e, const char *k, long v) { padd(e, "%s\"%s\":%ld", e->plen ? "," : "", k, v); }
void vh_ps(vh_ev_t *e, const char *k, const char *s) { padd(e, "%s\"%s\":\"%s\"", e->plen ? "," : "", k, s); }
void vh_pa(vh_ev_t *e, const char *k, const rci_t *a, int n) {
  padd(e, "%s\"%s\":[", e->plen ? "," : "", k);
  for (int i = 0; i < n; i++) padd(e, "%s%d", i ? "," : "", a[i]);
  padd(e, "]");
}

void vh_opnd(vh_ev_t *e, const char *nm, char role, mzd_t *M) {
  vh_ctx_t *c = CTX;
  if (e->no >= VH_MAXOP) { fprintf(stderr, "vh: too many operands\n"); exit(2); }
  vh_opnd_t *o = &e->o[e->no++];
  o->nm = nm;
  o->role = role;
  o->M = M;
  o->pre = o->post = 0;
  if (!M) { o->root = -1; o->r0 = o->c0 = o->m = o->n = 0; return; }
  int i = vh_find_mat(M);
  if (i < 0) { vh_adopt(M); i = vh_find_mat(M); }
  o->root = c->mats[i].root;
  o->r0 = c->mats[i].r0;
  o->c0 = c->mats[i].c0;
  o->m = M->nrows;
  o->n = M->ncols;
}

void vh_pre(vh_ev_t *e) {
  vh_ctx_t *c = CTX;
  if (c->mute) return;
  for (int i = 0; i < c->nroots; i++) {
    vh_root_t *r = &c->roots[i];
    if (!r->live) continue;
    if (!r->snap || !root_same(r->M, r->snap)) def_root(c, i);
  }
  for (int k = 0; k < e->no; k++)
    if (e->o[k].root >= 0) e->o[k].pre = c->roots[e->o[k].root].line;
  /* durable marker: if the call never returns, this line tells which call it was */
  c->line++;
  fprintf(c->f, "{\"e\":\"call\",\"op\":\"%s\",\"p\":{\"_\":0%s%s},\"dims\":[", e->op, e->plen ? "," : "", e->params);
  for (int k = 0; k < e->no; k++) fprintf(c->f, "%s[%d,%d,%d,%d]", k ? "," : "", e->o[k].m, e->o[k].n, e->o[k].r0, e->o[k].c0);
  fputs("]}\n", c->f);
  fflush(c->f);
}

void vh_result(vh_ev_t *e, const char *nm, mzd_t *R) {
  /* a matrix returned by the call: if it is one of the operands nothing to do, else adopt it */
  if (!R) { e->ret = -1; return; }
  for (int k = 0; k < e->no; k++)
    if (e->o[k].M == R) return;
  vh_adopt(R);
  vh_opnd(e, nm, 'r', R);
}

void vh_post(vh_ev_t *e) {
  vh_ctx_t *c = CTX;
  if (c->mute) return;
  long stray[64];
  int nstray = 0;
  for (int i = 0; i < c->nroots; i++) {
    vh_root_t *r = &c->roots[i];
    if (!r->live) continue;
    int isop = 0;
    for (int k = 0; k < e->no; k++)
      if (e->o[k].root == i) isop = 1;
    if (!r->snap) {
      def_root(c, i);
    } else if (!root_same(r->M, r->snap)) {
      def_root(c, i);
      if (!isop && nstray < 64) stray[nstray++] = r->line;
    }
  }
  c->line++;
  c->nev++;
  fprintf(c->f, "{\"e\":\"op\",\"op\":\"%s\",\"p\":{\"_\":0%s%s},\"o\":[", e->op, e->plen ? "," : "", e->params);
  for (int k = 0; k < e->no; k++) {
    vh_opnd_t *o = &e->o[k];
    if (o->root >= 0) o->post = c->roots[o->root].line;
    fprintf(c->f, "%s{\"nm\":\"%s\",\"role\":\"%c\",\"pre\":%ld,\"post\":%ld,\"r0\":%d,\"c0\":%d,\"m\":%d,\"n\":%d}",
            k ? "," : "", o->nm, o->role, o->pre, o->post, o->r0, o->c0, o->m, o->n);
  }
  fprintf(c->f, "],\"ret\":%ld,\"die\":%d,\"stray\":[", e->ret, e->die);
  for (int i = 0; i < nstray; i++) fprintf(c->f, "%s%ld", i ? "," : "", stray[i]);
  /* blocks the call is entitled to keep: header + storage of every freshly returned matrix */
  long expect = 0;
  for (int k = 0; k < e->no; k++)
    if (e->o[k].role == 'r' && e->o[k].M) expect += (e->o[k].M->data ? 2 : 1);
  fprintf(c->f, "],\"leak\":%ld,\"case\":%ld,\"fn\":[", vh_leakcheck ? e->dlive - expect : 0, c->curcase);
  for (int i = 0; i < c->nfns; i++) fprintf(c->f, "%s\"%s\"", i ? "," : "", c->fns[i]);
  fputs("]}\n", c->f);
  c->nfns = 0;
}

void vh_raw(const char *fmt, ...) {
  vh_ctx_t *c = CTX;
  if (c->mute) return;
  va_list ap;
  va_start(ap, fmt);
  vfprintf(c->f, fmt, ap);
  va_end(ap);
  fputc('\n', c->f);
  c->line++;
}

void vh_note(const char *fmt, ...) {
  vh_ctx_t *c = CTX;
  if (c->mute) return;
  va_list ap;
  fputs("{\"e\":\"note\",\"t\":\"", c->f);
  va_start(ap, fmt);
  vfprintf(c->f, fmt, ap);
  va_end(ap);
  fputs("\"}\n", c->f);
  c->line++;
}

/* ---- case seeding and isolation ---- */
#include "vh_fam.h"
#include <m4ri/mmc.h>
#include <sys/wait.h>
#include <unistd.h>
#include <signal.h>
#include <poll.h>

int vh_nofork = 0;
int vh_npass = 1;
__thread int vh_pass = 1;
int vh_leakcheck = 0;
#if __M4RI_ENABLE_MMC
extern mmb_t m4ri_mmc_cache[];
#endif

void vh_pass_begin(void) {
  vh_ctx_t *c = CTX;
  c->rng = c->caseseed;
  c->mute = (vh_pass > 1);
#if __M4RI_ENABLE_MMC
  if (vh_npass > 1 && vh_pass == 1) {
    /* the warm-up pass left recyclable blocks in the block cache: make them as dirty as possible */
    for (int i = 0; i < __M4RI_MMC_NBLOCKS; i++)
      if (m4ri_mmc_cache[i].size && m4ri_mmc_cache[i].data) memset(m4ri_mmc_cache[i].data, 0xFF, m4ri_mmc_cache[i].size);
  }
#endif
}
static int case_pipe[2];
static int in_child = 0;

void vh_case_seed(const vh_args_t *a, long idx) {
  uint64_t z = a->seed * 0x9E3779B97F4A7C15ULL ^ ((uint64_t)idx + 1) * 0xD1B54A32D192ED03ULL;
  z ^= z >> 29;
  CTX->rng = z * 0xBF58476D1CE4E5B9ULL + 12345;
  CTX->caseseed = CTX->rng;
  CTX->curcase = idx;
}

int vh_case_fork(long idx) {
  vh_ctx_t *c = CTX;
  if (vh_nofork) return 1;
  fflush(c->f);
  long off = ftell(c->f);
  if (pipe(case_pipe)) { perror("pipe"); exit(2); }
  pid_t pid = fork();
  if (pid < 0) { perror("fork"); exit(2); }
  if (pid == 0) {
    close(case_pipe[0]);
    in_child = 1;
    return 1;
  }
  close(case_pipe[1]);
  long rep[2] = {-1, -1};
  /* a case that does not finish within the limit (a change that breaks progress) is killed and recorded as a crash */
  struct pollfd pfd = {case_pipe[0], POLLIN, 0};
  int limit_ms = getenv("VH_CASE_TIMEOUT") ? atoi(getenv("VH_CASE_TIMEOUT")) * 1000 : 300000;
  ssize_t got = -1;
  if (poll(&pfd, 1, limit_ms) > 0) got = read(case_pipe[0], rep, sizeof rep);
  else kill(pid, SIGKILL);
  close(case_pipe[0]);
  int st = 0;
  waitpid(pid, &st, 0);
  fseek(c->f, 0, SEEK_END);
  if (got == (ssize_t)sizeof rep && WIFEXITED(st) && WEXITSTATUS(st) == 0) {
    c->line = rep[0];
    c->nev = rep[1];
    return 0;
  }
  /* the child died: keep its complete lines, drop a partial one, append a crash event */
  fflush(c->f);
  long end = ftell(c->f);
  long keep = off, nl = 0;
  {
    int fd = fileno(c->f);
    char buf[65536];
    long pos = off;
    while (pos < end) {
      ssize_t k = pread(fd, buf, sizeof buf, pos);
      if (k <= 0) break;
      for (ssize_t i = 0; i < k; i++)
        if (buf[i] == '\n') { nl++; keep = pos + i + 1; }
      pos += k;
    }
    if (ftruncate(fd, keep)) {}
    fseek(c->f, keep, SEEK_SET);
  }
  c->line += nl;
  int sig = WIFSIGNALED(st) ? WTERMSIG(st) : 0;
  int code = WIFEXITED(st) ? WEXITSTATUS(st) : -1;
  fprintf(c->f, "{\"e\":\"crash\",\"case\":%ld,\"sig\":%d,\"code\":%d}\n", idx, sig, code);
  c->line++;
  fflush(c->f);
  return 0;
}

void vh_case_end(void) {
  if (!in_child) return;
  vh_ctx_t *c = CTX;
  fflush(c->f);
  long rep[2] = {c->line, c->nev};
  if (write(case_pipe[1], rep, sizeof rep) < 0) {}
  _exit(0);
}
