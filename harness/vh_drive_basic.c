/* vh_drive_basic.c - families "move" (C08), "rowops" (C13), "obs" (C17) */
#include "vh.h"
#include "vh_fam.h"

static const int KINDS[] = {0, 0, 0, 1, 2, 3, 4, 5, 6, 6};
#define RK() KINDS[vh_randint(0, 9)]

/* log a 64-bit value as a "words" line and return its line number */
static long wline(word w) { return vh_def_words(&w, 1); }

/* ------------------------------------------------------------------ move */
/* deterministic per call (the purity comparison of C10 re-runs cases in other environments) */
static __thread word rnd_state;
static word rnd_cb(void *data) { (void)data; rnd_state = rnd_state * 6364136223846793005ULL + 1442695040888963407ULL; return rnd_state | ((word)1 << 63) | 1; }

enum { M_ADD, M_ADD_CA, M_ADD_CB, M_ADD_CAB, M__ADD, M_TRANSPOSE, M_TRANSPOSE2, M_COPY, M_COPY_BIG, M_COPYROW, M_SUBMATRIX, M_CONCAT, M_STACK, M_EXTRACT_U, M_EXTRACT_L, M_SET_UI, M_RANDOMIZE, M_NOPS };

static void move_case(int op, int cap) {
  vh_ev_t e;
  int m = vh_dim_small(cap), n = vh_dim_small(cap);
  int dnull = vh_randint(0, 1);
  mzd_t *R = NULL;
  switch (op) {
  case M_ADD: case M__ADD: {
    if (op == M_ADD && vh_randint(0, 2) == 0) n = 64 * vh_randint(1, 10) + vh_pick((int[]){0, 1, 63}, 3);
    mzd_t *A = vh_mk_kind(m, n, RK()), *B = vh_mk_kind(m, n, RK());
    mzd_t *C = (dnull && op == M_ADD) ? NULL : vh_mk_kind(m, n, RK());
    vh_begin(&e, op == M_ADD ? "add" : "_add");
    vh_opnd(&e, "C", 'o', C); vh_opnd(&e, "A", 'i', A); vh_opnd(&e, "B", 'i', B);
    vh_pre(&e);
    if (VH_CALL(&e)) R = (op == M_ADD) ? mzd_add(C, A, B) : _mzd_add(C, A, B);
    VH_END(&e);
    break;
  }
  case M_ADD_CA: case M_ADD_CB: case M_ADD_CAB: {
    mzd_t *A = vh_mk_kind(m, n, RK());
    mzd_t *B = (op == M_ADD_CAB) ? A : vh_mk_kind(m, n, RK());
    mzd_t *C = (op == M_ADD_CB) ? B : A;
    vh_begin(&e, "add");
    vh_pi(&e, "alias", op == M_ADD_CA ? 1 : op == M_ADD_CB ? 2 : 3);
    vh_opnd(&e, "C", 'b', C); vh_opnd(&e, "A", C == A ? 'b' : 'i', A); vh_opnd(&e, "B", C == B ? 'b' : 'i', B);
    vh_pre(&e);
    if (VH_CALL(&e)) R = mzd_add(C, A, B);
    VH_END(&e);
    break;
  }
  case M_TRANSPOSE: case M_TRANSPOSE2: {
    if (vh_randint(0, 3) == 0) { m = vh_randint(1, 70); n = vh_randint(1, 70); }
    mzd_t *A = vh_mk_kind(m, n, RK());
    mzd_t *D = dnull ? NULL : vh_mk_kind(n, m, RK());
    vh_begin(&e, "transpose");
    vh_opnd(&e, "D", 'o', D); vh_opnd(&e, "A", 'i', A);
    vh_pre(&e);
    if (VH_CALL(&e)) R = mzd_transpose(D, A);
    VH_END(&e);
    if (op == M_TRANSPOSE2 && !e.die && R) {
      /* transposing twice gives the original: second call logged as its own event */
      vh_result(&e, "R", R); vh_post(&e);
      mzd_t *T = R;
      vh_begin(&e, "transpose");
      vh_opnd(&e, "D", 'o', NULL); vh_opnd(&e, "A", 'i', T);
      vh_pre(&e);
      if (VH_CALL(&e)) R = mzd_transpose(NULL, T);
      VH_END(&e);
    }
    break;
  }
  case M_COPY: case M_COPY_BIG: {
    mzd_t *A = vh_mk_kind(m, n, RK());
    int dm = m, dn = n;
    if (op == M_COPY_BIG) { dm = m + vh_randint(0, 3); dn = n + vh_pick((int[]){0, 1, 5, 63, 64, 65}, 6); dnull = 0; }
    mzd_t *D = dnull ? NULL : vh_mk_kind(dm, dn, RK());
    vh_begin(&e, "copy");
    vh_opnd(&e, "D", (op == M_COPY_BIG) ? 'b' : 'o', D); vh_opnd(&e, "A", 'i', A);
    vh_pre(&e);
    if (VH_CALL(&e)) R = mzd_copy(D, A);
    VH_END(&e);
    break;
  }
  case M_COPYROW: {
    int bn = n + vh_pick((int[]){0, 0, 1, 63, 64, 70}, 6), bm = vh_randint(1, 5);
    mzd_t *A = vh_mk_kind(m, n, RK()), *B = vh_mk_kind(bm, bn, RK());
    int i = vh_randint(0, bm - 1), j = vh_randint(0, m - 1);
    vh_begin(&e, "copy_row");
    vh_pi(&e, "i", i); vh_pi(&e, "j", j);
    vh_opnd(&e, "B", 'b', B); vh_opnd(&e, "A", 'i', A);
    vh_pre(&e);
    if (VH_CALL(&e)) mzd_copy_row(B, i, A, j);
    VH_END(&e);
    break;
  }
  case M_SUBMATRIX: {
    mzd_t *A = vh_mk_kind(m, n, RK());
    int lr = vh_randint(0, m - 1), hr = vh_randint(lr + 1, m);
    int lc = vh_randint(0, n - 1);
    if (vh_randint(0, 2) == 0) lc = lc / 64 * 64;
    int hc = vh_randint(lc + 1, n);
    if (vh_randint(0, 2) == 0 && lc + 64 <= n) hc = lc + 64 * vh_randint(1, (n - lc) / 64);
    /* a supplied destination may be larger than the block (only a smaller one is refused): the block goes to its
       upper left corner, the rest stays */
    int big = !dnull && vh_randint(0, 3) == 0;
    int sm = hr - lr + (big ? vh_randint(0, 3) : 0), sn = hc - lc + (big ? vh_pick((int[]){0, 1, 5, 30, 63, 64, 65, 130}, 8) : 0);
    mzd_t *S = dnull ? NULL : vh_mk_kind(sm, sn, RK());
    vh_begin(&e, "submatrix");
    vh_pi(&e, "lr", lr); vh_pi(&e, "lc", lc); vh_pi(&e, "hr", hr); vh_pi(&e, "hc", hc);
    vh_opnd(&e, "S", big ? 'b' : 'o', S); vh_opnd(&e, "A", 'i', A);
    vh_pre(&e);
    if (VH_CALL(&e)) R = mzd_submatrix(S, A, lr, lc, hr, hc);
    VH_END(&e);
    break;
  }
  case M_CONCAT: case M_STACK: {
    int m2 = (op == M_STACK) ? vh_dim_small(cap) : m, n2 = (op == M_CONCAT) ? vh_dim_small(cap) : n;
    mzd_t *A = vh_mk_kind(m, n, RK()), *B = vh_mk_kind(m2, n2, RK());
    mzd_t *C = dnull ? NULL : (op == M_CONCAT ? vh_mk_kind(m, n + n2, RK()) : vh_mk_kind(m + m2, n, RK()));
    vh_begin(&e, op == M_CONCAT ? "concat" : "stack");
    vh_opnd(&e, "C", 'o', C); vh_opnd(&e, "A", 'i', A); vh_opnd(&e, "B", 'i', B);
    vh_pre(&e);
    if (VH_CALL(&e)) R = (op == M_CONCAT) ? mzd_concat(C, A, B) : mzd_stack(C, A, B);
    VH_END(&e);
    break;
  }
  case M_EXTRACT_U: case M_EXTRACT_L: {
    mzd_t *A = vh_mk_kind(m, n, RK());
    int k = m < n ? m : n;
    mzd_t *U = dnull ? NULL : vh_mk_kind(k, k, RK());
    vh_begin(&e, op == M_EXTRACT_U ? "extract_u" : "extract_l");
    vh_opnd(&e, "U", 'o', U); vh_opnd(&e, "A", 'i', A);
    vh_pre(&e);
    if (VH_CALL(&e)) R = (op == M_EXTRACT_U) ? mzd_extract_u(U, A) : mzd_extract_l(U, A);
    VH_END(&e);
    break;
  }
  case M_SET_UI: {
    mzd_t *A = vh_mk_kind(m, n, RK());
    int v = vh_randint(0, 3);
    vh_begin(&e, "set_ui");
    vh_pi(&e, "v", v);
    vh_opnd(&e, "A", 'o', A);
    vh_pre(&e);
    if (VH_CALL(&e)) mzd_set_ui(A, v);
    VH_END(&e);
    break;
  }
  case M_RANDOMIZE: {
    /* contents are unspecified; what the properties say is: nothing outside the view changes (C09) and an owner
     * keeps zero bits beyond its last column (C10) */
    mzd_t *A = vh_mk_kind(m, n, RK());
    int custom = vh_randint(0, 1);
    vh_begin(&e, custom ? "randomize_custom" : "randomize");
    vh_opnd(&e, "A", 'o', A);
    vh_pre(&e);
    if (VH_CALL(&e)) { rnd_state = 0x9E3779B97F4A7C15ULL + (word)m * 131 + (word)n; srandom(12345u + (unsigned)m * 7u + (unsigned)n); if (custom) mzd_randomize_custom(A, rnd_cb, NULL); else mzd_randomize(A); }
    VH_END(&e);
    break;
  }
  }
  if (!e.die) vh_result(&e, "R", R);
  vh_post(&e);
  vh_free_all();
}

/* transpose size classes of the dispatcher: <=8, <=16, <=32, <64, 64-blocks with tails, >512 */
static void transpose_class_case(int cls, int tier) {
  int m, n;
  switch (cls) {
  case 0: m = vh_randint(1, 8); n = vh_randint(1, 8); break;
  case 1: m = vh_randint(1, 16); n = vh_randint(9, 16); break;
  case 2: m = vh_randint(1, 32); n = vh_randint(17, 32); break;
  case 3: m = vh_randint(1, 63); n = vh_randint(33, 63); break;
  case 4: m = 64 * vh_randint(1, 3) + vh_pick((int[]){0, 1, 63}, 3); n = 64 * vh_randint(1, 3) + vh_pick((int[]){0, 1, 63}, 3); break;
  case 5: m = vh_randint(1, 70); n = 64 * vh_randint(1, 4) + vh_randint(0, 63); break;
  case 6: m = 64 * vh_randint(1, 4) + vh_randint(0, 63); n = vh_randint(1, 70); break;
  default: if (vh_randint(0, 1)) { m = vh_randint(513, tier ? 1100 : 600); n = vh_randint(1, tier ? 600 : 130); } else { n = vh_randint(513, tier ? 1100 : 600); m = vh_randint(1, tier ? 600 : 130); } break;
  }
  if (vh_randint(0, 1)) { int t = m; m = n; n = t; }
  mzd_t *A = vh_mk_kind(m, n, vh_randint(0, 2) ? 0 : 6);
  mzd_t *D = vh_randint(0, 1) ? NULL : vh_mk_kind(n, m, RK());
  vh_ev_t e;
  mzd_t *R = NULL;
  vh_begin(&e, "transpose");
  vh_pi(&e, "cls", cls);
  vh_opnd(&e, "D", 'o', D); vh_opnd(&e, "A", 'i', A);
  vh_pre(&e);
  if (VH_CALL(&e)) R = mzd_transpose(D, A);
  VH_END(&e);
  if (!e.die) vh_result(&e, "R", R);
  vh_post(&e);
  vh_free_all();
}

/* addition has width-specialised loops (1..8 words and a general one): every row width x column residue x
 * aliasing form (C fresh / supplied / C == A / C == B / all the same) */
static void add_sweep_case(int width, int res, int form) {
  int n = 64 * (width - 1) + (res == 0 ? 64 : res == 1 ? 1 : 63);
  int m = vh_randint(1, 4);
  mzd_t *A = vh_mk_kind(m, n, 0);
  mzd_t *B = (form == 4) ? A : vh_mk_kind(m, n, 0);
  mzd_t *C = form == 0 ? NULL : form == 1 ? vh_mk_kind(m, n, 0) : form == 2 ? A : form == 3 ? B : A;
  vh_ev_t e;
  mzd_t *R = NULL;
  vh_begin(&e, "add");
  vh_pi(&e, "alias", form);
  vh_opnd(&e, "C", (C == A || C == B) ? 'b' : 'o', C);
  vh_opnd(&e, "A", C == A ? 'b' : 'i', A);
  vh_opnd(&e, "B", C == B ? 'b' : 'i', B);
  vh_pre(&e);
  if (VH_CALL(&e)) R = mzd_add(C, A, B);
  VH_END(&e);
  if (!e.die) vh_result(&e, "R", R);
  vh_post(&e);
  vh_free_all();
}

int fam_move(const vh_args_t *a) {
  int ncases = a->cases ? a->cases : (a->tier ? 8000 : 1600);
  int cap = a->maxdim ? a->maxdim : (a->tier ? 320 : 200);
  for (long idx = 0; idx < ncases; idx++) {
    if (!VH_SHARD(a, idx)) continue;
    vh_case_seed(a, idx);
    VH_CASE(idx)
    if (idx % 5 == 4) transpose_class_case((int)((idx / 5) % 8), a->tier);
    else move_case((int)(idx % M_NOPS), cap);
    VH_CASE_END
  }
  long sidx = ncases;
  static const int widths[] = {1, 2, 3, 4, 5, 6, 7, 8, 9, 10, 16, 33};
  for (int wi = 0; wi < 12; wi++)
    for (int res = 0; res < 3; res++)
      for (int form = 0; form < 5; form++, sidx++) {
        if (!a->tier && (int)((wi + res + form + a->seed) % 2) != 0) continue;
        if (!VH_SHARD(a, sidx)) continue;
        vh_case_seed(a, sidx);
        VH_CASE(sidx)
        add_sweep_case(widths[wi], res, form);
        VH_CASE_END
      }
  return 0;
}

/* ---------------------------------------------------------------- rowops */
static const int BITPOS[] = {0, 1, 31, 32, 33, 62, 63};

static int pick_col(int n) {
  if (vh_randint(0, 1)) {
    int w = vh_randint(0, (n - 1) / 64), b = BITPOS[vh_randint(0, 6)];
    int c = w * 64 + b;
    if (c < n) return c;
  }
  return vh_randint(0, n - 1);
}

static void perm_fill(mzp_t *P, int len, int range, int kind) {
  /* kind 0 identity, 1 single swap, 2 full random LAPACK, 3 junk beyond len */
  for (int i = 0; i < P->length; i++) P->values[i] = i;
  if (kind == 1 && len > 0) { int i = vh_randint(0, len - 1); P->values[i] = vh_randint(i, range - 1); }
  if (kind == 2 || kind == 3) for (int i = 0; i < len; i++) P->values[i] = vh_randint(i, range - 1);
  if (kind == 4 && len > 1) { if (vh_randint(0, 1)) P->values[len - 2] = len - 1; else P->values[vh_randint(0, len - 2)] = range - 1; }   /* only the last column / row moves */
}

static void rowops_step(mzd_t *A) {
  vh_ev_t e;
  int m = A->nrows, n = A->ncols;
  int op = vh_randint(0, 20);
  switch (op) {
  case 0: case 1: {
    int ra = vh_randint(0, m - 1), rb = vh_randint(0, m - 1);
    if (vh_randint(0, 2) == 0) {
      /* the variant that swaps from a given word on (start block 0 .. width; width = nothing to swap) */
      int sb = vh_randint(0, A->width);
      vh_begin(&e, "_row_swap"); vh_pi(&e, "a", ra); vh_pi(&e, "b", rb); vh_pi(&e, "sb", sb);
      vh_opnd(&e, "A", 'b', A); vh_pre(&e);
      if (VH_CALL(&e)) _mzd_row_swap(A, ra, rb, sb);
      VH_END(&e); vh_post(&e);
      break;
    }
    vh_begin(&e, "row_swap"); vh_pi(&e, "a", ra); vh_pi(&e, "b", rb);
    vh_opnd(&e, "A", 'b', A); vh_pre(&e);
    if (VH_CALL(&e)) mzd_row_swap(A, ra, rb);
    VH_END(&e); vh_post(&e);
    break;
  }
  case 2: case 3: {
    int ca = pick_col(n), cb = pick_col(n);
    vh_begin(&e, "col_swap"); vh_pi(&e, "a", ca); vh_pi(&e, "b", cb);
    vh_opnd(&e, "A", 'b', A); vh_pre(&e);
    if (VH_CALL(&e)) mzd_col_swap(A, ca, cb);
    VH_END(&e); vh_post(&e);
    break;
  }
  case 4: {
    int ca = pick_col(n), cb = pick_col(n), r0 = vh_randint(0, m), r1 = vh_randint(r0, m);
    vh_begin(&e, "col_swap_in_rows"); vh_pi(&e, "a", ca); vh_pi(&e, "b", cb); vh_pi(&e, "r0", r0); vh_pi(&e, "r1", r1);
    vh_opnd(&e, "A", 'b', A); vh_pre(&e);
    if (VH_CALL(&e)) mzd_col_swap_in_rows(A, ca, cb, r0, r1);
    VH_END(&e); vh_post(&e);
    break;
  }
  case 5: {
    /* "adding one row to another": source and destination are distinct rows (C13) */
    if (m < 2) return;
    int s = vh_randint(0, m - 1), d = (s + vh_randint(1, m - 1)) % m;
    vh_begin(&e, "row_add"); vh_pi(&e, "src", s); vh_pi(&e, "dst", d);
    vh_opnd(&e, "A", 'b', A); vh_pre(&e);
    if (VH_CALL(&e)) mzd_row_add(A, s, d);
    VH_END(&e); vh_post(&e);
    break;
  }
  case 6: case 7: {
    if (m < 2) return;
    int s = vh_randint(0, m - 1), d = (s + vh_randint(1, m - 1)) % m, off = pick_col(n);
    vh_begin(&e, "row_add_offset"); vh_pi(&e, "src", s); vh_pi(&e, "dst", d); vh_pi(&e, "off", off);
    vh_opnd(&e, "A", 'b', A); vh_pre(&e);
    if (VH_CALL(&e)) mzd_row_add_offset(A, d, s, off);
    VH_END(&e); vh_post(&e);
    break;
  }
  case 8: case 9: {
    int r = vh_randint(0, m - 1), off = pick_col(n);
    vh_begin(&e, "row_clear_offset"); vh_pi(&e, "row", r); vh_pi(&e, "off", off);
    vh_opnd(&e, "A", 'b', A); vh_pre(&e);
    if (VH_CALL(&e)) mzd_row_clear_offset(A, r, off);
    VH_END(&e); vh_post(&e);
    break;
  }
  case 10: case 11: case 12: case 13: {
    int x = vh_randint(0, m - 1), y = pick_col(n);
    int nb = vh_randint(1, (n - y) < 64 ? (n - y) : 64);
    if (vh_randint(0, 3) == 0 && n - y >= 64) nb = 64;
    word v = vh_rand();
    if (nb < 64) v &= (((word)1 << nb) - 1);
    int andv = (op == 10 && vh_randint(0, 2) == 0);   /* a third of the xor cases exercise mzd_and_bits instead */
    const char *nm = andv ? "and_bits" : op == 10 ? "xor_bits" : op == 11 ? "clear_bits" : op == 12 ? "read_bits" : "read_bits_int";
    if (op == 13 && nb > 30) nb = vh_randint(1, (n - y) < 30 ? (n - y) : 30);
    vh_begin(&e, nm); vh_pi(&e, "x", x); vh_pi(&e, "y", y); vh_pi(&e, "n", nb);
    long vl = 0;
    if (op == 10) { vl = wline(v); vh_pi(&e, "L_v", vl); }
    vh_opnd(&e, "A", (op >= 12) ? 'i' : 'b', A); vh_pre(&e);
    word got = 0;
    if (VH_CALL(&e)) {
      if (andv) mzd_and_bits(A, x, y, nb, v << (64 - nb));   /* mzd_and_bits takes the values in the HIGH n bits of the word */
      else if (op == 10) mzd_xor_bits(A, x, y, nb, v);
      else if (op == 11) mzd_clear_bits(A, x, y, nb);
      else if (op == 12) got = mzd_read_bits(A, x, y, nb);
      else got = (word)(unsigned)mzd_read_bits_int(A, x, y, nb);
    }
    VH_END(&e);
    if (op >= 12) { long gl = wline(got); vh_pi(&e, "L_got", gl); }
    vh_post(&e);
    break;
  }
  case 14: {
    int x = vh_randint(0, m - 1), y = pick_col(n), v = vh_randint(0, 1);
    vh_begin(&e, "write_bit"); vh_pi(&e, "x", x); vh_pi(&e, "y", y); vh_pi(&e, "v", v);
    vh_opnd(&e, "A", 'b', A); vh_pre(&e);
    if (VH_CALL(&e)) mzd_write_bit(A, x, y, v);
    VH_END(&e); vh_post(&e);
    vh_begin(&e, "read_bit"); vh_pi(&e, "x", x); vh_pi(&e, "y", y);
    vh_opnd(&e, "A", 'i', A); vh_pre(&e);
    if (VH_CALL(&e)) e.ret = mzd_read_bit(A, x, y);
    VH_END(&e); vh_post(&e);
    break;
  }
  default: {
    /* permutation application */
    int which = op - 15; /* 0 left 1 left_trans 2 right 3 right_trans 4 right_trans_tri 5.. */
    int range = (which <= 1) ? m : n;
    int len = range;
    if (vh_randint(0, 3) == 0) len = vh_randint(1, range); /* permutation shorter than the dimension */
    if (which == 4) { len = range; }
    mzp_t *P = mzp_init(len);
    perm_fill(P, len, len, vh_randint(0, 4));
    static const char *nm[] = {"apply_p_left", "apply_p_left_trans", "apply_p_right", "apply_p_right_trans", "apply_p_right_trans_tri", "apply_p_right",
                               "apply_p_right_capped", "apply_p_right_trans_capped"};
    /* the "capped" variants (rows from start_row on only; start_col = 0 as in the library's own use) */
    int sr = 0;
    if (which == 5 && vh_randint(0, 2)) { which = 6 + vh_randint(0, 1); sr = vh_pick((int[]){0, 1, m / 2, m - 1, m}, 5); }
    vh_begin(&e, nm[which]);
    if (which >= 6) vh_pi(&e, "sr", sr);
    vh_pa(&e, "P", P->values, len);
    vh_opnd(&e, "A", 'b', A); vh_pre(&e);
    if (VH_CALL(&e)) {
      switch (which) {
      case 0: mzd_apply_p_left(A, P); break;
      case 1: mzd_apply_p_left_trans(A, P); break;
      case 2: case 5: mzd_apply_p_right(A, P); break;
      case 3: mzd_apply_p_right_trans(A, P); break;
      case 4: mzd_apply_p_right_trans_tri(A, P); break;
      case 6: mzd_apply_p_right_even_capped(A, P, sr, 0); break;
      case 7: mzd_apply_p_right_trans_even_capped(A, P, sr, 0); break;
      }
    }
    VH_END(&e); vh_post(&e);
    mzp_free(P);
    break;
  }
  }
}

/* sw >= 0: sweep case - width, residue, in-place flag and the word-offset parities of C/A and B are prescribed */
static void combine_case_sw(int sw) {
  int w = vh_randint(1, 6), n = 64 * w - vh_pick((int[]){0, 0, 1, 63}, 4);
  int inplace = vh_randint(0, 1), offa = -1, offb = -1;
  if (sw >= 0) {
    w = 1 + sw % 6; sw /= 6;
    n = 64 * w - (int[]){0, 1, 63}[sw % 3]; sw /= 3;
    inplace = sw % 2; sw /= 2;
    offa = sw % 2; sw /= 2;
    offb = sw % 2;
  }
  if (n < 1) n = 1;
  int m = vh_randint(1, 4);
  if (vh_views && offa >= 0) vh_force_w0 = offa + 2 * vh_randint(0, 1);
  mzd_t *A = vh_mk_kind(m, n, 0);
  if (vh_views && offb >= 0) vh_force_w0 = offb + 2 * vh_randint(0, 1);
  mzd_t *B = vh_mk_kind(m, n, 0);
  if (vh_views && offa >= 0) vh_force_w0 = offa;
  mzd_t *C = inplace ? A : vh_mk_kind(m, n, 0);
  vh_force_w0 = -1;
  int sb = vh_randint(0, A->width - 1);
  int cr = vh_randint(0, m - 1), ar = inplace ? cr : vh_randint(0, m - 1), br = vh_randint(0, m - 1);
  vh_ev_t e;
  vh_begin(&e, "combine");
  vh_pi(&e, "sb", sb); vh_pi(&e, "cr", cr); vh_pi(&e, "ar", ar); vh_pi(&e, "br", br); vh_pi(&e, "inplace", inplace);
  vh_opnd(&e, "C", 'b', C); vh_opnd(&e, "A", inplace ? 'b' : 'i', A); vh_opnd(&e, "B", 'i', B);
  vh_pre(&e);
  if (VH_CALL(&e)) mzd_combine(C, cr, sb, A, ar, sb, B, br, sb);
  VH_END(&e);
  vh_post(&e);
  vh_free_all();
}
static void combine_case(void) { combine_case_sw(-1); }

/* a matrix wider than any cache-derived strip (more than 65536 columns make the strip height of the triangular column
 * permutation round down to nothing with a 4 KiB L1): sparse content, a handful of swaps */
static void wide_tri_case(int which) {
  int m = 3, n = 66000 + vh_randint(0, 70);
  mzd_t *A = vh_mk(m, n, 0);
  for (int i = 0; i < m; i++)
    for (int t = 0; t < 24; t++) { int j = vh_randint(0, n - 1); A->data[(size_t)i * A->rowstride + j / 64] |= (word)1 << (j % 64); }
  mzp_t *P = mzp_init(n);
  for (int t = 0; t < 6; t++) { int i = vh_randint(0, n - 2); P->values[i] = vh_randint(i, n - 1); }
  vh_ev_t e;
  /* (the plain column permutations walk the matrix in strips of (L1 / 8) / width rows as well) */
  vh_begin(&e, which == 0 ? "apply_p_right_trans_tri" : which == 1 ? "apply_p_right" : "apply_p_right_trans");
  vh_pa(&e, "P", P->values, n);
  vh_opnd(&e, "A", 'b', A); vh_pre(&e);
  if (VH_CALL(&e)) { if (which == 0) mzd_apply_p_right_trans_tri(A, P); else if (which == 1) mzd_apply_p_right(A, P); else mzd_apply_p_right_trans(A, P); }
  VH_END(&e); vh_post(&e);
  mzp_free(P);
  vh_free_all();
}

int fam_rowops(const vh_args_t *a) {
  int ncases = a->cases ? a->cases : (a->tier ? 6000 : 1200);
  static const int NC[] = {1, 2, 63, 64, 65, 100, 127, 128, 130, 200, 257, 320};
  for (long idx = 0; idx < ncases; idx++) {
    if (!VH_SHARD(a, idx)) continue;
    vh_case_seed(a, idx);
    VH_CASE(idx)
    if (idx % 10 == 9) combine_case();
    else {
      int m = vh_randint(1, 6), n = NC[vh_randint(0, 11)];
      if (idx % 7 == 0) m = vh_randint(100, a->tier ? 700 : 300); /* more rows than a strip of the column kernel */
      if (idx % 11 == 0) { m = vh_randint(1, 70); n = vh_randint(1, 70); }
      mzd_t *A = vh_mk_kind(m, n, vh_randint(0, 3) ? 0 : 6);
      int depth = vh_randint(1, 3);
      for (int s = 0; s < depth; s++) rowops_step(A);
      vh_free_all();
    }
    VH_CASE_END
  }
  if (strstr(a->extra, "nosweep")) return 0;
  if (!vh_views && VH_SHARD(a, 4000000L)) {
    vh_case_seed(a, 4000000L);
    VH_CASE(4000000L)
    wide_tri_case(0);
    VH_CASE_END
  }
  for (long w = 1; w <= 2; w++) {
    if (strstr(a->extra, "nosweep") || !VH_SHARD(a, 4000000L + w)) continue;
    vh_case_seed(a, 4000000L + w);
    VH_CASE(4000000L + w)
    wide_tri_case((int)w);
    VH_CASE_END
  }
  /* row combination: every row width 1..6 words x residue x in-place x alignment of destination and source
   * (the SSE2 paths depend on the 16-byte alignment of the row starts, i.e. on the word offsets of windows) */
  for (long sw = 0; sw < 6 * 3 * 2 * 2 * 2; sw++) {
    long sidx = 3000000 + sw;
    if (!VH_SHARD(a, sidx)) continue;
    vh_case_seed(a, sidx);
    VH_CASE(sidx)
    combine_case_sw((int)sw);
    VH_CASE_END
  }
  return 0;
}

/* ------------------------------------------------------------------- obs */
static void obs_case(int op, int cap) {
  vh_ev_t e;
  int m = vh_randint(1, 6), n = vh_dim_small(cap);
  if (vh_randint(0, 4) == 0) m = vh_randint(1, 80);
  switch (op) {
  case 0: case 1: { /* equal / cmp on (A, A with one bit flipped) or on A,A-copy or unrelated */
    mzd_t *A = vh_mk_kind(m, n, RK());
    int mode = vh_randint(0, 5);
    int m2 = m, n2 = n;
    if (mode == 5) { if (vh_randint(0, 1)) m2 = m + 1; else n2 = n + vh_pick((int[]){1, 64}, 2); }
    mzd_t *B = vh_mk_kind(m2, n2, 2);
    if (mode <= 3 || mode == 5) {
      /* B := A (bit by bit through raw words, masked) */
      for (int i = 0; i < m; i++)
        for (int j = 0; j < n; j++)
          if ((A->data[(size_t)i * A->rowstride + j / 64] >> (j % 64)) & 1) B->data[(size_t)i * B->rowstride + j / 64] |= (word)1 << (j % 64);
    } else vh_fill_kind(B, RK());
    if (mode >= 1 && mode <= 3) {
      int i = vh_pick((int[]){0, m - 1, m / 2}, 3), j;
      if (mode == 1) j = vh_randint(0, n < 64 ? n - 1 : 63);
      else if (mode == 2) j = n - 1 - vh_randint(0, (n % 64 ? n % 64 : 64) - 1);
      else j = pick_col(n);
      B->data[(size_t)i * B->rowstride + j / 64] ^= (word)1 << (j % 64);
    }
    int swap = vh_randint(0, 1);
    mzd_t *X = swap ? B : A, *Y = swap ? A : B;
    vh_begin(&e, op == 0 ? "equal" : "cmp");
    vh_opnd(&e, "A", 'i', X); vh_opnd(&e, "B", 'i', Y);
    vh_pre(&e);
    if (VH_CALL(&e)) e.ret = (op == 0) ? mzd_equal(X, Y) : mzd_cmp(X, Y);
    VH_END(&e); vh_post(&e);
    /* antisymmetry: the reversed comparison is logged too */
    vh_begin(&e, op == 0 ? "equal" : "cmp");
    vh_opnd(&e, "A", 'i', Y); vh_opnd(&e, "B", 'i', X);
    vh_pre(&e);
    if (VH_CALL(&e)) e.ret = (op == 0) ? mzd_equal(Y, X) : mzd_cmp(Y, X);
    VH_END(&e); vh_post(&e);
    break;
  }
  case 2: { /* is_zero on zero / single-bit / random */
    mzd_t *A = vh_mk_kind(m, n, vh_pick((int[]){2, 2, 4, 4, 0, 1}, 6));
    vh_begin(&e, "is_zero");
    vh_opnd(&e, "A", 'i', A); vh_pre(&e);
    if (VH_CALL(&e)) e.ret = mzd_is_zero(A);
    VH_END(&e); vh_post(&e);
    break;
  }
  case 3: case 4: { /* find_pivot */
    int structured = vh_randint(0, 2) != 0;
    if (structured) { m = vh_randint(2, 8); n = vh_pick((int[]){65, 100, 128, 130, 192, 200, 257, 320}, 8); }
    mzd_t *A = vh_mk_kind(m, n, structured ? 2 : vh_pick((int[]){2, 4, 4, 1, 1, 0, 7}, 7));
    int sr = vh_randint(0, m - 1), sc;
    switch (vh_randint(0, 3)) {
    case 0: sc = n - 1 - vh_randint(0, (n < 64 ? n : 64) - 1); break; /* in the last 64 columns */
    case 1: sc = (n - 1) / 64 * 64; break;                             /* start of the last word */
    case 2: sc = vh_randint(0, (n - 1) / 64) * 64; break;               /* word aligned */
    default: sc = pick_col(n);
    }
    if (structured) {
      /* the searched region is empty up to a target word (first / a middle / the last one); in that word
         several rows hold ones at different positions, in an order that defeats early exits; rows above
         the start row and columns left of the start column hold junk */
      sr = vh_randint(0, m - 2);
      if (vh_randint(0, 3)) sc = vh_randint(0, n - 1);
      int w0 = sc / 64, wl = (n - 1) / 64;
      int tw = vh_randint(w0, wl);
      int lo = tw * 64, hi = (tw == wl) ? n - 1 : lo + 63;
      if (tw == w0) lo = sc;
      /* a quarter of the cases: the only candidates sit in the LAST (or the first) bit of the target word */
      int edge = vh_randint(0, 3) == 0 ? (vh_randint(0, 2) ? hi : lo) : -1;
      for (int i = sr; i < m; i++) {
        int cnt = vh_randint(0, 2);
        if (edge >= 0 && i == m - 1) cnt = 1;
        for (int t = 0; t < cnt; t++) {
          int c = edge >= 0 ? edge : vh_randint(0, 2) ? vh_randint(lo, hi) : (vh_randint(0, 1) ? lo + (sc % 64 <= hi - lo ? sc % 64 : 0) : vh_randint(lo, hi));
          if (c >= lo && c <= hi) A->data[(size_t)i * A->rowstride + c / 64] |= (word)1 << (c % 64);
        }
        for (int c = hi + 1; c < n; c++) if (vh_randint(0, 3) == 0) A->data[(size_t)i * A->rowstride + c / 64] |= (word)1 << (c % 64);
      }
      for (int i = 0; i < m; i++)
        for (int c = 0; c < n; c++)
          if ((i < sr || c < sc) && vh_randint(0, 1)) A->data[(size_t)i * A->rowstride + c / 64] |= (word)1 << (c % 64);
    }
    rci_t r = -7, c = -7;
    vh_begin(&e, "find_pivot");
    vh_pi(&e, "sr", sr); vh_pi(&e, "sc", sc);
    vh_opnd(&e, "A", 'i', A); vh_pre(&e);
    if (VH_CALL(&e)) e.ret = mzd_find_pivot(A, sr, sc, &r, &c);
    VH_END(&e);
    vh_pi(&e, "r", r); vh_pi(&e, "c", c);
    vh_post(&e);
    break;
  }
  case 5: { /* first_zero_row */
    mzd_t *A = vh_mk_kind(m, n, vh_pick((int[]){2, 4, 1, 0}, 4));
    /* clear a random number of trailing rows */
    int z = vh_randint(0, m);
    for (int i = m - z; i < m; i++)
      for (int j = 0; j < n; j++) A->data[(size_t)i * A->rowstride + j / 64] &= ~((word)1 << (j % 64));
    vh_begin(&e, "first_zero_row");
    vh_opnd(&e, "A", 'i', A); vh_pre(&e);
    if (VH_CALL(&e)) e.ret = mzd_first_zero_row(A);
    VH_END(&e); vh_post(&e);
    break;
  }
  case 6: { /* density is a sampled estimate by design (not named by any listed property): only its range
               and (through C10) its purity are judged; logged in parts per million */
    mzd_t *A = vh_mk_kind(m, n, RK());
    double d = 0;
    vh_begin(&e, "density");
    vh_opnd(&e, "A", 'i', A); vh_pre(&e);
    if (VH_CALL(&e)) d = mzd_density(A, 1);
    VH_END(&e);
    e.ret = (d >= 0.0 && d <= 1.0) ? (long)(d * 1000000.0) : -1;
    vh_post(&e);
    break;
  }
  case 7: { /* hash is a function of the contents: two equal matrices hash equal */
    mzd_t *A = vh_mk_kind(m, n, RK());
    mzd_t *B = vh_mk_kind(m, n, 2);
    for (int i = 0; i < m; i++)
      for (int j = 0; j < n; j++)
        if ((A->data[(size_t)i * A->rowstride + j / 64] >> (j % 64)) & 1) B->data[(size_t)i * B->rowstride + j / 64] |= (word)1 << (j % 64);
    word ha = 0, hb = 0;
    vh_begin(&e, "hash2");
    vh_opnd(&e, "A", 'i', A); vh_opnd(&e, "B", 'i', B); vh_pre(&e);
    if (VH_CALL(&e)) { ha = mzd_hash(A); hb = mzd_hash(B); }
    VH_END(&e);
    e.ret = (ha == hb);
    vh_post(&e);
    break;
  }
  }
  vh_free_all();
}

int fam_obs(const vh_args_t *a) {
  int ncases = a->cases ? a->cases : (a->tier ? 8000 : 1600);
  int cap = a->maxdim ? a->maxdim : 260;
  for (long idx = 0; idx < ncases; idx++) {
    if (!VH_SHARD(a, idx)) continue;
    vh_case_seed(a, idx);
    VH_CASE(idx)
    obs_case((int)(idx % 8), cap);
    VH_CASE_END
  }
  return 0;
}
