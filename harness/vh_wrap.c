/* vh_wrap.c - link-time wrappers (-Wl,--wrap=...) around the allocator entry points used by the
 * m4ri objects, and around m4ri_die. No source hook is needed for fault injection, heap poisoning,
 * allocation accounting or for observing the library's controlled abort. */
#include "vh.h"
#include <malloc.h>
#include <stdarg.h>
#include <unistd.h>
#include <stdint.h>

void *__real_malloc(size_t);
void *__real_calloc(size_t, size_t);
void *__real_realloc(void *, size_t);
void __real_free(void *);
int __real_posix_memalign(void **, size_t, size_t);
void __real_m4ri_die(const char *, ...);

int vh_poison_alloc = 0, vh_poison_free = 0;
long vh_fail_at = 0;
long vh_alloc_count = 0;
long vh_live_blocks = 0;
long vh_live_bytes = 0;
int vh_alloc_log = 0;
static __thread int inlib = 0;

void vh_lib_enter(void) { inlib++; }
void vh_lib_leave(void) { if (inlib > 0) inlib--; }

void *vh_xmalloc(size_t n) {
  void *p = __real_malloc(n ? n : 1);
  if (!p) { fprintf(stderr, "vh: out of memory\n"); _exit(2); }
  return p;
}
void vh_xfree(void *p) { __real_free(p); }

/* ---- call tracking for the allocator family (C14): live-pointer table and per-operation call log ---- */
int vh_track = 0;
vh_acall_t vh_calls[VH_MAXCALLS];
int vh_ncalls = 0;
int vh_badfree = 0;
#define TBL (1 << 16)
static void *tk[TBL];
static size_t tv[TBL];
static size_t hp(void *p) { return (((uintptr_t)p) >> 4) * 0x9E3779B97F4A7C15ULL >> 48; }
static void tbl_put(void *p, size_t n) {
  size_t i = hp(p) & (TBL - 1);
  while (tk[i] && tk[i] != (void *)1 && tk[i] != p) i = (i + 1) & (TBL - 1);
  tk[i] = p; tv[i] = n;
}
static long tbl_take(void *p) {
  size_t i = hp(p) & (TBL - 1);
  for (int probes = 0; tk[i] && probes < TBL; probes++, i = (i + 1) & (TBL - 1))
    if (tk[i] == p) { tk[i] = (void *)1; return (long)tv[i]; }
  return -1;
}
static void track_alloc(void *p, size_t n) {
  if (!vh_track || !p) return;
  tbl_put(p, n);
  if (vh_ncalls < VH_MAXCALLS) { vh_calls[vh_ncalls].kind = 'm'; vh_calls[vh_ncalls].size = (long)n; vh_ncalls++; }
}
static void track_free(void *p) {
  if (!vh_track || !p) return;
  long n = tbl_take(p);
  if (n < 0) vh_badfree++;
  if (vh_ncalls < VH_MAXCALLS) { vh_calls[vh_ncalls].kind = 'f'; vh_calls[vh_ncalls].size = n; vh_ncalls++; }
}

int vh_die_fd = -1;
/* requests are numbered while the library is executing a call (vh_lib_enter .. vh_lib_leave) */
static int should_fail(const char *what, size_t n) {
  if (!inlib) return 0;
  long c = __atomic_add_fetch(&vh_alloc_count, 1, __ATOMIC_RELAXED);
  if (vh_alloc_log) {
    char buf[96];
    int l = snprintf(buf, sizeof buf, "VHALLOC %ld %s %zu\n", c, what, n);
    if (write(vh_alloc_log, buf, l) < 0) {}
  }
  return vh_fail_at && c == vh_fail_at;
}

static void on_alloc(void *p, size_t n, int poison) {
  if (!p) return;
  track_alloc(p, n);
  __atomic_add_fetch(&vh_live_blocks, 1, __ATOMIC_RELAXED);
  if (poison && vh_poison_alloc) memset(p, 0xA5, n);
}

void *__wrap_malloc(size_t n) {
  if (should_fail("malloc", n)) return NULL;
  void *p = __real_malloc(n);
  on_alloc(p, n, 1);
  return p;
}

void *__wrap_calloc(size_t a, size_t b) {
  if (should_fail("calloc", a * b)) return NULL;
  void *p = __real_calloc(a, b);
  on_alloc(p, a * b, 0);
  return p;
}

void *__wrap_realloc(void *q, size_t n) {
  if (should_fail("realloc", n)) return NULL;
  void *p = __real_realloc(q, n);
  if (!q && p) __atomic_add_fetch(&vh_live_blocks, 1, __ATOMIC_RELAXED);
  if (vh_track && p) { if (q) tbl_take(q); tbl_put(p, n); }
  return p;
}

int __wrap_posix_memalign(void **out, size_t al, size_t n) {
  if (should_fail("posix_memalign", n)) return 12; /* ENOMEM */
  int r = __real_posix_memalign(out, al, n);
  if (r == 0) on_alloc(*out, n, 1);
  return r;
}

void __wrap_free(void *p) {
  if (!p) return;
  track_free(p);
  __atomic_sub_fetch(&vh_live_blocks, 1, __ATOMIC_RELAXED);
  if (vh_poison_free) {
    size_t n = malloc_usable_size(p);
    memset(p, 0x5A, n);
  }
  __real_free(p);
}

void __wrap_m4ri_die(const char *fmt, ...) {
  char buf[160];
  va_list ap;
  va_start(ap, fmt);
  vsnprintf(buf, sizeof buf, fmt, ap);
  va_end(ap);
  for (char *q = buf; *q; q++)
    if (*q == '"' || *q == '\\' || *q == '\n' || (unsigned char)*q < 32) *q = ' ';
  if (CTX && CTX->armed) {
    CTX->died = 1;
    strncpy(CTX->diemsg, buf, sizeof(CTX->diemsg) - 1);
    siglongjmp(CTX->jb, 1);
  }
  /* unarmed: behave like the real handler, but announce that the library's handler ran */
  if (vh_die_fd >= 0) { if (write(vh_die_fd, "D", 1) < 0) {} }
  fprintf(stderr, "VHDIE %s\n", buf);
  fflush(stderr);
  abort();
}
