/* vh_drive_alg.c - families "elim" (C02), "ple" (C03), "trsm" (C04), "inv" (C05), "solve" (C06),
 * "kernel" (C07) */
#include "vh.h"
#include "vh_fam.h"

/* ---- rank-profile content (DESIGN.md 5, C02): fills M (owner or window) ---- */
void vh_fill_profile(mzd_t *M, int style) {
  int m = M->nrows, n = M->ncols;
  int maxr = m < n ? m : n;
  int *piv = (int *)vh_xmalloc(sizeof(int) * (maxr + 2));
  int r = 0;
  switch (style) {
  case 0: vh_fill_dense(M); break;
  case 1: vh_fill_lowrank(M, vh_randint(0, maxr)); break;
  case 2: case 3: { /* runs of consecutive pivot columns separated by gaps */
    static const int gaps[] = {1, 1, 2, 5, 11, 13, 23, 25, 35, 37, 47, 49, 63, 64, 65};
    int c = (style == 3) ? vh_pick((int[]){60, 64, 65, 70, 128, 130}, 6) : vh_randint(0, 3);
    while (c < n && r < maxr) {
      int run = vh_randint(1, 48);
      for (int t = 0; t < run && c < n && r < maxr; t++) piv[r++] = c++;
      c += gaps[vh_randint(0, 14)];
    }
    vh_fill_rankprofile(M, piv, r, vh_randint(0, 3) ? 1 : 0);
    break;
  }
  case 4: vh_fill_kind(M, 2); break;
  case 8: { /* rank-deficient left half, pivots continuing in the right half (r1 < n1, r2 > 0) */
    int c = 0, r1 = vh_randint(0, 20);
    for (int t = 0; t < r1 && c < n / 2 && r < maxr; t++) { piv[r++] = c; c += vh_randint(1, 9); }
    c = n / 2 + vh_randint(0, 70);
    int r2 = vh_randint(1, 40);
    for (int t = 0; t < r2 && c < n && r < maxr; t++) { piv[r++] = c; c += vh_randint(1, 5); }
    vh_fill_rankprofile(M, piv, r, 1);
    break;
  }
  case 9: { /* recursive PLE with L compression over whole words: r1 pivots in the left half with r1 mod 64 not in
               {0, 32}, at least 64 further pivots in the right half, rows left below r1 + r2 */
    int n1 = ((((n - 1) / 64 + 1) >> 1)) * 64;
    int r1 = vh_pick((int[]){7, 20, 45, 64, 70, 100, 128, 129}, 8), r2 = vh_pick((int[]){70, 130, 200}, 3);
    if (r1 >= n1) r1 = n1 > 8 ? n1 - 7 : 1;
    if (r2 > n - n1) r2 = n - n1;
    if (r1 + r2 > m - 5) r2 = m - 5 - r1 > 1 ? m - 5 - r1 : 1;
    int c = 0;
    for (int t = 0; t < r1 && c < n1 && r < maxr; t++) { piv[r++] = c; c += (n1 / (r1 + 1)) > 1 ? vh_randint(1, n1 / (r1 + 1)) : 1; }
    c = n1;
    for (int t = 0; t < r2 && c < n && r < maxr; t++) { piv[r++] = c; c += ((n - n1) > 2 * r2 && vh_randint(0, 3) == 0) ? 2 : 1; }
    vh_fill_rankprofile(M, piv, r, 1);
    break;
  }
  case 5: vh_fill_identity(M); break;
  case 6: vh_fill_sparse(M, vh_randint(1, 3)); break;
  case 7: { /* full column rank / last pivots at the right edge */
    for (int c = n - 1; c >= 0 && r < maxr; c--) piv[r++] = 0;
    for (int t = 0; t < r; t++) piv[t] = n - r + t;
    vh_fill_rankprofile(M, piv, r, 1);
    break;
  }
  default: vh_fill_dense(M);
  }
  vh_xfree(piv);
}

static int pick_style(void) {
  static const int st[] = {0, 0, 0, 1, 1, 2, 2, 2, 3, 3, 4, 5, 6, 6, 7};
  return st[vh_randint(0, 14)];
}

static int alg_dim(const vh_args_t *a) {
  int cap = a->maxdim ? a->maxdim : (a->tier ? 700 : 260);
  return vh_dim_small(cap);
}

/* ------------------------------------------------------------------ elim */
enum { E_NAIVE, E_M4RI, E_PLUQ, E_HYBRID, E__M4RI, E_TOP, E_NOPS };

static __thread int force_vwide;   /* this case: a matrix wider than eight times the smallest L1 */

static void elim_case(const vh_args_t *a, int op) {
  int m = alg_dim(a), n = alg_dim(a);
  if (a->tier == 0 && (long)m * n > 260L * 200) { if (m > n) m = m / 2 + 1; else n = n / 2 + 1; }
  int wide = vh_randint(0, 9) == 0;
  if (wide) {
    /* short and wide: the number of words from the current block to the end of the row takes every residue mod 8
     * (the word loops of the row-processing routines are unrolled eight times) */
    m = vh_randint(4, 40);
    n = vh_pick((int[]){448, 512, 513, 576, 640, 960, 1024, 1088}, 8) - vh_pick((int[]){0, 0, 1, 37}, 4);
    /* wider than eight times the smallest admissible L1: the strip height of the column-permutation kernels (used by the
     * PLUQ-based reduction) rounds down to nothing there */
    if (vh_randint(0, 5) == 0) { m = vh_randint(3, 8); n = 33000 + vh_randint(0, 200); }
  }
  if (force_vwide) { wide = 1; m = vh_pick((int[]){1, 2, 3, 3, 5, 8}, 6); n = 33000 + vh_randint(0, 200); }   /* (few rows and many columns: the automatic k is smallest) */
  /* full row rank with a multiple of 64 rows and more columns than rows (the PLUQ-based reduction treats a rank that is a
   * multiple of the word size separately) */
  int fullrow = !wide && vh_randint(0, 7) == 0;
  if (fullrow) { m = vh_pick((int[]){64, 128}, 2); n = m + vh_pick((int[]){1, 6, 64, 70, 130}, 5); }
  mzd_t *A = vh_mk(m, n, -1);
  if (fullrow) vh_fill_dense(A); else
  vh_fill_profile(A, wide ? vh_pick((int[]){1, 2, 3, 3, 6}, 5) : pick_style());
  int full = vh_randint(0, 1), k = vh_randint(0, 10);
  if (k == 9 || k == 10) k = vh_randint(0, 1) ? 0 : k; /* k up to 10 is admissible but allocates 6*2^k rows */
  vh_ev_t e;
  static const int thr[] = {0, 10, 100, 150, 500, 1000};
  int th = thr[vh_randint(0, 5)], heur = vh_randint(0, 1);
  static const char *nm[] = {"echelonize_naive", "echelonize_m4ri", "echelonize_pluq", "echelonize", "_echelonize_m4ri", "echelonize_m4ri"};
  if (op == E_TOP) full = 0;
  if (force_vwide) { full = (op != E_TOP); k = 0; }   /* (the full reduction is what applies the column permutation; automatic k) */
  vh_begin(&e, nm[op]);
  vh_pi(&e, "full", full); vh_pi(&e, "k", k); vh_pi(&e, "heur", heur); vh_pi(&e, "thr", th);
  vh_opnd(&e, "A", 'b', A);
  vh_pre(&e);
  if (VH_CALL(&e)) {
    switch (op) {
    case E_NAIVE: e.ret = mzd_echelonize_naive(A, full); break;
    case E_M4RI: case E_TOP: e.ret = mzd_echelonize_m4ri(A, full, k); break;
    case E_PLUQ: e.ret = mzd_echelonize_pluq(A, full); break;
    case E_HYBRID: e.ret = mzd_echelonize(A, full); break;
    case E__M4RI: e.ret = _mzd_echelonize_m4ri(A, full, k, heur, th / 1000.0); break;
    }
  }
  VH_END(&e);
  vh_post(&e);
  if (op == E_TOP && !e.die) {
    int k2 = force_vwide ? 0 : vh_randint(0, 8);
    vh_begin(&e, "top_echelonize_m4ri");
    vh_pi(&e, "k", k2);
    vh_opnd(&e, "A", 'b', A);
    vh_pre(&e);
    if (VH_CALL(&e)) mzd_top_echelonize_m4ri(A, k2);
    VH_END(&e);
    vh_post(&e);
  }
  vh_free_all();
}

/* dimensions at which the automatic choice of the table parameter reaches its cap (it grows with log2 of the smaller
 * dimension): a very large, very sparse matrix - a diagonal stretch plus scattered entries, rank around 100 - so that the
 * trace stays small and the validator can still reduce it */
static void elim_huge_case(int which) {
  int m = 32768 + 64 * vh_randint(0, 2) + vh_randint(0, 1), n = which == 3 ? 17000 + vh_randint(0, 1400) : 32768 + vh_randint(0, 100);
  if (which == 3) m = 16384 + vh_randint(0, 70);
  mzd_t *A = vh_new(m, n);
  int d0 = vh_randint(0, m - 200), c0 = vh_randint(0, n - 200), len = vh_randint(20, 90);
  for (int i = 0; i < len; i++) mzd_write_bit(A, d0 + i, c0 + i + (i > len / 2), 1);
  for (int t = 0; t < 60; t++) mzd_write_bit(A, vh_randint(0, m - 1), vh_randint(0, 5) ? vh_randint(0, n - 1) : c0 + vh_randint(0, 120), 1);
  int full = vh_randint(0, 1);
  vh_ev_t e;
  static const char *nm[] = {"echelonize_m4ri", "echelonize", "echelonize_pluq", "echelonize_m4ri"};
  vh_begin(&e, nm[which]);
  vh_pi(&e, "full", full); vh_pi(&e, "k", 0); vh_pi(&e, "heur", 0); vh_pi(&e, "thr", 0);
  vh_opnd(&e, "A", 'b', A);
  vh_pre(&e);
  if (VH_CALL(&e)) e.ret = which == 1 ? mzd_echelonize(A, full) : which == 2 ? mzd_echelonize_pluq(A, full) : mzd_echelonize_m4ri(A, full, 0);
  VH_END(&e);
  vh_post(&e);
  vh_free_all();
}

/* sweep: a block of exactly kbar consecutive pivot columns (1 <= kbar <= 6k) followed by a pivot gap, placed
 * after `lead` leading pivots, for every table parameter k: every table count 1..6 of the M4RI block loop
 * and of the top reduction, with kbar == kk as well as kbar < kk */
static void elim_sweep_case(int k, int kbar, int which) {
  int lead = vh_pick((int[]){0, 3, 64}, 3), gap = vh_pick((int[]){1, 2, 64}, 3), tail = vh_randint(0, 20);
  int r = lead + kbar + tail;
  int n = lead + kbar + gap + tail + vh_randint(0, 30), m = r + vh_randint(0, 12);
  mzd_t *A = vh_mk(m, n, -1);
  int *piv = (int *)vh_xmalloc(sizeof(int) * (r + 1));
  int t = 0;
  for (int i = 0; i < lead + kbar; i++) piv[t++] = i;
  for (int i = 0; i < tail; i++) piv[t++] = lead + kbar + gap + i;
  vh_fill_rankprofile(A, piv, r, vh_randint(0, 2) ? 1 : 0);
  vh_xfree(piv);
  vh_ev_t e;
  int full = (which == 1);
  vh_begin(&e, "echelonize_m4ri");
  vh_pi(&e, "full", full); vh_pi(&e, "k", k); vh_pi(&e, "heur", 0); vh_pi(&e, "thr", 0); vh_pi(&e, "sweep_kbar", kbar);
  vh_opnd(&e, "A", 'b', A);
  vh_pre(&e);
  if (VH_CALL(&e)) e.ret = mzd_echelonize_m4ri(A, full, k);
  VH_END(&e);
  vh_post(&e);
  if (which == 2 && !e.die) {
    vh_begin(&e, "top_echelonize_m4ri");
    vh_pi(&e, "k", k);
    vh_opnd(&e, "A", 'b', A);
    vh_pre(&e);
    if (VH_CALL(&e)) mzd_top_echelonize_m4ri(A, k);
    VH_END(&e);
    vh_post(&e);
  }
  vh_free_all();
}

/* hybrid elimination: sparse inputs wide enough (> 256 columns processed) for the density check inside the
 * M4RI block loop to hand over to the PLUQ route mid-way (fill-in raises the density above the threshold) */
static void elim_hybrid_case(const vh_args_t *a, int which) {
  int m = vh_pick((int[]){300, 333, 400, 450}, 4), n = vh_pick((int[]){300, 320, 390, 470}, 4);
  if (a->tier && vh_randint(0, 2) == 0) { m = vh_randint(500, 700); n = vh_randint(500, 900); }
  mzd_t *A = vh_mk(m, n, -1);
  int per_row = vh_pick((int[]){3, 5, 8, 12}, 4);   /* 1% .. 4% ones */
  vh_fill_sparse(A, per_row);
  int full = vh_randint(0, 1);
  /* threshold just above the input density, or the library default 0.15 */
  int dens_pm = per_row * 1000 / n;
  int th = vh_pick((int[]){0, 0, 1, 2}, 4) == 0 ? 150 : dens_pm + vh_pick((int[]){1, 5, 20}, 3);
  vh_ev_t e;
  vh_begin(&e, which ? "_echelonize_m4ri" : "echelonize");
  vh_pi(&e, "full", full); vh_pi(&e, "k", 0); vh_pi(&e, "heur", 1); vh_pi(&e, "thr", which ? th : 150); vh_pi(&e, "hybrid", 1);
  vh_opnd(&e, "A", 'b', A);
  vh_pre(&e);
  if (VH_CALL(&e)) e.ret = which ? _mzd_echelonize_m4ri(A, full, 0, 1, th / 1000.0) : mzd_echelonize(A, full);
  VH_END(&e);
  vh_post(&e);
  vh_free_all();
}

/* calls with the largest admissible explicit table parameters, run by every thread of the threads family right after the
 * start barrier: state that the library sets up on first use (code books, tables) is first touched concurrently */
void vh_firstuse_cases(void) {
  elim_sweep_case(9, 54, 1);
  elim_sweep_case(10, 60, 0);
  elim_sweep_case(10, 31, 2);
}

int fam_elim(const vh_args_t *a) {
  int ncases = a->cases ? a->cases : (a->tier ? 4000 : 700);
  for (long idx = 0; idx < ncases; idx++) {
    if (!VH_SHARD(a, idx)) continue;
    vh_case_seed(a, idx);
    VH_CASE(idx)
    /* (a fixed share of the cases: the PLUQ-based and the hybrid reduction on a very wide matrix) */
    force_vwide = (idx % 53 == 11);
    { static const int vw[] = {E_PLUQ, E_HYBRID, E_M4RI, E_TOP};
      elim_case(a, force_vwide ? vw[(idx / 53) % 4] : (int)(idx % E_NOPS)); }
    force_vwide = 0;
    VH_CASE_END
  }
  if (strstr(a->extra, "huge")) {
    for (long h = 0; h < (a->tier ? 8 : 4); h++) {
      long hidx = 5000000 + h;
      if (!VH_SHARD(a, hidx)) continue;
      vh_case_seed(a, hidx);
      VH_CASE(hidx)
      elim_huge_case((int)(h % 4));
      VH_CASE_END
    }
  }
  if (strstr(a->extra, "nosweep")) return 0;
  {
    int nh = a->tier ? 60 : 8;
    for (long h = 0; h < nh; h++) {
      long hidx = 1000000 + h;
      if (!VH_SHARD(a, hidx)) continue;
      vh_case_seed(a, hidx);
      VH_CASE(hidx)
      elim_hybrid_case(a, (int)(h % 2));
      VH_CASE_END
    }
  }
  /* deterministic sweep over (k, kbar, entry point); quick: a third of it, rotating with the seed */
  long sidx = ncases;
  for (int k = 1; k <= 8; k++)
    for (int kbar = 1; kbar <= 6 * k; kbar++)
      for (int which = 0; which < 3; which++, sidx++) {
        if (!a->tier && which == 0 && (int)((kbar + k + a->seed) % 2) != 0) continue;   /* quick: all (k, kbar) for the reduced form and the top reduction, half for the non-reduced form */
        if (!VH_SHARD(a, sidx)) continue;
        vh_case_seed(a, sidx);
        VH_CASE(sidx)
        elim_sweep_case(k, kbar, which);
        VH_CASE_END
      }
  return 0;
}

/* ------------------------------------------------------------------- ple */
enum { P_PLE, P_PLUQ, P__PLE, P__PLUQ, P_PLE_NAIVE, P_PLUQ_NAIVE, P_PLE_RUSSIAN, P_PLUQ_RUSSIAN, P_NOPS };

static void junk_perm(mzp_t *P) {
  int mode = vh_randint(0, 2);
  for (int i = 0; i < P->length; i++)
    P->values[i] = mode == 0 ? i : mode == 1 ? vh_randint(0, P->length - 1) : (int)(vh_rand() % 100000) - 50000;
}

/* rank structure for the block recursion of the factorisation (column split at n1 = the word-aligned half of the columns):
 * the rank r1 of the left part becomes a multiple of the word size below n1 - mode 0: the left part is zero (r1 = 0),
 * mode 1: only its first word of columns is kept (r1 = 64 for enough dense rows) - and the last rows become copies of the
 * first ones, so that rows remain below the pivot rows (their part of L is moved when L is compressed) */
static void shape_halves(mzd_t *A, int mode) {
  int m = A->nrows, n = A->ncols;
  int n1 = (((n - 1) / 64 + 1) >> 1) * 64;
  int from = mode == 0 ? 0 : 64;
  if (n1 > from)
    for (int i = 0; i < m; i++)
      for (int c = from; c < n1; c += 64) mzd_clear_bits(A, i, c, 64);
  int dup = m / 4 < 10 ? m / 4 : 10;
  for (int t = 0; t < dup; t++)
    for (int c = 0; c < n; c += 64) {
      int len = n - c < 64 ? n - c : 64;
      word v = mzd_read_bits(A, t, c, len);
      mzd_clear_bits(A, m - 1 - t, c, len);
      mzd_xor_bits(A, m - 1 - t, c, len, v);
    }
}

static void ple_case(const vh_args_t *a, int op, int big) {
  int bigshape = -1;
  int m = alg_dim(a), n = alg_dim(a);
  if (big >= 100) {
    /* "tiny" cache configuration (model binding only): shapes that enter the block recursion - one and two levels
     * deep - yet are small enough for the model of the recursion to be evaluated on them by the trace validator */
    static const int tm[] = {260, 300, 340, 270, 340, 330, 180, 200};
    static const int tn[] = {65, 100, 140, 128, 129, 192, 200, 260};
    int t = (big - 100) % 8;
    bigshape = 3;
    m = tm[t]; n = tn[t];
  } else if (big) {
    /* shapes that enter the block-recursive algorithm in the small-cache configuration:
       ncols > 64 and width*nrows > __M4RI_PLE_CUTOFF */
    /* 10..13: the two sides of the base-case test itself (exactly one word of columns with more rows than the cutoff
       allows - still the base case; two words at and just above width*nrows = cutoff) */
    /* 14: more columns than eight times the smallest admissible L1 (the column kernels work in strips of (L1 / 8) / width rows) */
    static const int bm[] = {70, 4200, 130, 2100, 1400, 140, 600, 200, 1030, 560, 8200, 4097, 8192, 4096, 5};
    static const int bn[] = {8200, 70, 4200, 260, 400, 3900, 900, 2800, 500, 960, 64, 128, 64, 128, 33100};
    static const int quickset[] = {0, 1, 2, 3, 4, 10, 11, 14};
    int t = a->tier ? vh_randint(0, 14) : quickset[(big - 1) % 8];
    bigshape = t;
    m = bm[t]; n = bn[t];
    if (a->maxdim && (m > a->maxdim || n > a->maxdim)) { m = a->maxdim; n = a->maxdim; }
  } else if (a->tier == 0 && (long)m * n > 260L * 200) { if (m > n) m = m / 2 + 1; else n = n / 2 + 1; }
  mzd_t *A = vh_mk(m, n, -1);
  vh_fill_profile(A, big ? ((bigshape == 3 || bigshape == 4 || bigshape >= 6) && vh_randint(0, 2) ? 9 : vh_pick((int[]){0, 1, 1, 2, 3, 3, 8}, 7)) : pick_style());
  if (big && n > 128 && vh_randint(0, 2) == 0) shape_halves(A, vh_randint(0, 1));
  /* trailing zero rows (the factorisation routines cut them off first and must still define P for them) */
  if (vh_randint(0, 2) == 0 && m > 8) {
    int t = vh_randint(1, 6);
    for (int i = m - t; i < m; i++)
      for (int j = 0; j < n; j++) if ((A->data[(size_t)i * A->rowstride + j / 64] >> (j % 64)) & 1) mzd_write_bit(A, i, j, 0);
  }
  mzp_t *P = mzp_init(m), *Q = mzp_init(n);
  junk_perm(P); junk_perm(Q);
  static const int cuts[] = {0, 0, 64, 128, 512};
  int cutoff = cuts[vh_randint(0, 4)];
  int k = vh_randint(0, 8);
  static const char *nm[] = {"ple", "pluq", "_ple", "_pluq", "_ple_naive", "_pluq_naive", "_ple_russian", "_pluq_russian"};
  vh_ev_t e;
  vh_begin(&e, nm[op]);
  vh_pi(&e, "cutoff", cutoff); vh_pi(&e, "k", k); vh_pi(&e, "big", big ? 1 : 0);
  vh_pi(&e, "isple", (op == P_PLE || op == P__PLE || op == P_PLE_NAIVE || op == P_PLE_RUSSIAN));
  vh_opnd(&e, "A", 'b', A);
  vh_pre(&e);
  if (VH_CALL(&e)) {
    switch (op) {
    case P_PLE: e.ret = mzd_ple(A, P, Q, cutoff); break;
    case P_PLUQ: e.ret = mzd_pluq(A, P, Q, cutoff); break;
    case P__PLE: e.ret = _mzd_ple(A, P, Q, cutoff); break;
    case P__PLUQ: e.ret = _mzd_pluq(A, P, Q, cutoff); break;
    case P_PLE_NAIVE: e.ret = _mzd_ple_naive(A, P, Q); break;
    case P_PLUQ_NAIVE: e.ret = _mzd_pluq_naive(A, P, Q); break;
    case P_PLE_RUSSIAN: e.ret = _mzd_ple_russian(A, P, Q, k); break;
    case P_PLUQ_RUSSIAN: e.ret = _mzd_pluq_russian(A, P, Q, k); break;
    }
  }
  VH_END(&e);
  /* permutations after the call; out-of-range values are clamped for logging (TLC ints) but flagged */
  vh_pa(&e, "P", P->values, m);
  vh_pa(&e, "Q", Q->values, n);
  vh_post(&e);
  mzp_free(P); mzp_free(Q);
  vh_free_all();
}

/* the Four-Russians base case with an explicit k and a LAST block of every width r = 1 .. 7k: every number of tables
 * (2 .. 7 and the single-table fall-back) and every split of a block over the tables is used for the updates below and
 * right of the block; dense (all blocks full) and rank-deficient contents */
static void ple_sweep_case(int k, int r, int which) {
  int lead = vh_pick((int[]){0, 7 * k, 64}, 3);
  int n = lead + r, m = n + vh_pick((int[]){3, 20, 70}, 3);
  mzd_t *A = vh_mk(m, n, -1);
  vh_fill_profile(A, vh_pick((int[]){0, 0, 1, 2}, 4));
  mzp_t *P = mzp_init(m), *Q = mzp_init(n);
  junk_perm(P); junk_perm(Q);
  vh_ev_t e;
  vh_begin(&e, which ? "_pluq_russian" : "_ple_russian");
  vh_pi(&e, "cutoff", 0); vh_pi(&e, "k", k); vh_pi(&e, "big", 0); vh_pi(&e, "isple", !which);
  vh_opnd(&e, "A", 'b', A);
  vh_pre(&e);
  if (VH_CALL(&e)) e.ret = which ? _mzd_pluq_russian(A, P, Q, k) : _mzd_ple_russian(A, P, Q, k);
  VH_END(&e);
  vh_pa(&e, "P", P->values, m);
  vh_pa(&e, "Q", Q->values, n);
  vh_post(&e);
  mzp_free(P); mzp_free(Q);
  vh_free_all();
}

int fam_ple(const vh_args_t *a) {
  int ncases = a->cases ? a->cases : (a->tier ? 4000 : 640);
  int nbig = a->tier ? 90 : 16;
  if (strstr(a->extra, "nobig")) nbig = 0;
  if (strstr(a->extra, "tinyrec")) {
    for (long idx = 0; idx < ncases; idx++) {
      if (!VH_SHARD(a, idx)) continue;
      vh_case_seed(a, idx);
      VH_CASE(idx)
      ple_case(a, (int)(idx % 4), 100 + (int)((idx / 4) % 8));
      VH_CASE_END
    }
    return 0;
  }
  for (long idx = strstr(a->extra, "onlybig") ? ncases : 0; idx < ncases + nbig; idx++) {
    if (!VH_SHARD(a, idx)) continue;
    vh_case_seed(a, idx);
    VH_CASE(idx)
    if (idx >= ncases) ple_case(a, (int)((idx + (idx - ncases) / 8) % 4), 1 + (int)((idx - ncases) % 8));   /* every shape meets every entry point */
    else ple_case(a, (int)(idx % P_NOPS), 0);
    VH_CASE_END
  }
  if (strstr(a->extra, "nosweep") || strstr(a->extra, "onlybig")) return 0;
  long sidx = 3000000;
  static const int KS[] = {2, 3, 5, 8};
  for (int ki = 0; ki < 4; ki++)
    for (int r = 1; r <= 7 * KS[ki]; r++, sidx++) {
      if (!a->tier && (int)((r + ki + a->seed) % 2) != 0) continue;      /* quick: every other width, rotating with the seed */
      if (!VH_SHARD(a, sidx)) continue;
      vh_case_seed(a, sidx);
      VH_CASE(sidx)
      ple_sweep_case(KS[ki], r, (int)(sidx % 2));
      VH_CASE_END
    }
  return 0;
}

/* ------------------------------------------------------------------ trsm */
/* unit triangular T with random junk in the opposite triangle (as when L and U share storage) */
static void fill_tri(mzd_t *T, int upper) {
  if (vh_randint(0, 3) == 0) {
    /* sparse: the identity plus a few entries (rows that are zero across most of a table block), both triangles */
    vh_fill_kind(T, 2);
    int cnt = vh_randint(1, 3 + T->nrows / 6);
    for (int t = 0; t < cnt; t++) {
      int i = vh_randint(0, T->nrows - 1), j = vh_randint(0, T->nrows - 1);
      T->data[(size_t)i * T->rowstride + j / 64] |= (word)1 << (j % 64);
    }
  } else
  vh_fill_dense(T);
  for (int i = 0; i < T->nrows; i++) T->data[(size_t)i * T->rowstride + i / 64] |= (word)1 << (i % 64);
  (void)upper;
}

static void trsm_case(const vh_args_t *a, int variant, int entry) {
  static const int NS[] = {1, 2, 31, 63, 64, 65, 100, 127, 128, 129, 191, 192, 200, 255, 256, 257, 300};
  int n = NS[vh_randint(0, a->tier ? 16 : 13)], w = alg_dim(a);
  if (a->tier && vh_randint(0, 5) == 0) n = vh_pick((int[]){511, 512, 513, 520}, 4);
  if (a->tier == 0 && (long)n * w > 260L * 160) w = w / 3 + 1;
  /* the recursive regime (n above __M4RI_MUL_BLOCKSIZE, 256 with the small cache sizes) with right-hand sides that are
   * narrower and wider than the triangle (a square B hides a mix-up of the two dimensions) */
  if (vh_randint(0, 7) == 0) {
    n = vh_pick((int[]){257, 300, 321, 384}, 4);
    w = vh_pick((int[]){1, 40, 64, 70, 130, 340, 400}, 7);
  }
  /* right-hand sides of 8, 9, 16, 17 words: the unrolled word loops of the table-based left solves */
  if ((variant == 2 || variant == 3) && vh_randint(0, 9) == 0) { n = vh_pick((int[]){30, 70, 130}, 3); w = vh_pick((int[]){500, 512, 576, 640, 1030, 1088}, 6); }
  int left = (variant == 2 || variant == 3);
  mzd_t *T = vh_mk(n, n, -1);
  fill_tri(T, variant == 0 || variant == 3);
  mzd_t *B = left ? vh_mk(n, w, -1) : vh_mk(w, n, -1);
  vh_fill_kind(B, vh_pick((int[]){0, 0, 0, 1, 6, 3}, 6));
  /* right-hand sides that vanish in whole words for whole blocks of rows: [0 | C] and [C | 0 | C'] */
  if (w > 64 && vh_randint(0, 4) == 0) {
    int wz = vh_randint(0, (B->ncols - 1) / 64 > 0 ? (B->ncols - 1) / 64 - 1 : 0);
    for (int i = 0; i < B->nrows; i++) B->data[(size_t)i * B->rowstride + wz] = 0;
  }
  static const int cuts[] = {0, 0, 64, 128};
  int cutoff = cuts[vh_randint(0, 3)], k = vh_randint(0, 8);
  static const char *nm[] = {"trsm_upper_right", "trsm_lower_right", "trsm_lower_left", "trsm_upper_left"};
  vh_ev_t e;
  vh_begin(&e, nm[variant]);
  vh_pi(&e, "cutoff", cutoff); vh_pi(&e, "entry", entry); vh_pi(&e, "k", k);
  vh_opnd(&e, "T", 'i', T); vh_opnd(&e, "B", 'b', B);
  vh_pre(&e);
  if (VH_CALL(&e)) {
    if (entry == 0) {
      switch (variant) {
      case 0: mzd_trsm_upper_right(T, B, cutoff); break;
      case 1: mzd_trsm_lower_right(T, B, cutoff); break;
      case 2: mzd_trsm_lower_left(T, B, cutoff); break;
      case 3: mzd_trsm_upper_left(T, B, cutoff); break;
      }
    } else if (entry == 1) {
      switch (variant) {
      case 0: _mzd_trsm_upper_right(T, B, cutoff); break;
      case 1: _mzd_trsm_lower_right(T, B, cutoff); break;
      case 2: _mzd_trsm_lower_left(T, B, cutoff); break;
      case 3: _mzd_trsm_upper_left(T, B, cutoff); break;
      }
    } else {
      if (variant == 2) _mzd_trsm_lower_left_russian(T, B, k);
      else _mzd_trsm_upper_left_russian(T, B, k);
    }
  }
  VH_END(&e);
  vh_post(&e);
  vh_free_all();
}

/* the table-based left solves with an explicit k for every size n = 1 .. 8k + 9: whole blocks of 8k rows, tails of every
 * length handled k rows at a time, and the last, shorter chunk */
static void trsm_sweep_case(int variant, int k, int n) {
  static const char *nm[] = {"trsm_upper_right", "trsm_lower_right", "trsm_lower_left", "trsm_upper_left"};
  int w = vh_pick((int[]){1, 40, 64, 70, 130}, 5);
  mzd_t *T = vh_mk(n, n, -1);
  fill_tri(T, variant == 3);
  mzd_t *B = vh_mk(n, w, -1);
  vh_fill_kind(B, vh_pick((int[]){0, 0, 1, 3}, 4));
  vh_ev_t e;
  vh_begin(&e, nm[variant]);
  vh_pi(&e, "cutoff", 0); vh_pi(&e, "entry", 2); vh_pi(&e, "k", k);
  vh_opnd(&e, "T", 'i', T); vh_opnd(&e, "B", 'b', B);
  vh_pre(&e);
  if (VH_CALL(&e)) { if (variant == 2) _mzd_trsm_lower_left_russian(T, B, k); else _mzd_trsm_upper_left_russian(T, B, k); }
  VH_END(&e);
  vh_post(&e);
  vh_free_all();
}

int fam_trsm(const vh_args_t *a) {
  int ncases = a->cases ? a->cases : (a->tier ? 4000 : 640);
  for (long idx = 0; idx < ncases; idx++) {
    if (!VH_SHARD(a, idx)) continue;
    vh_case_seed(a, idx);
    VH_CASE(idx)
    int variant = (int)(idx % 4), entry = (int)((idx / 4) % 3);
    if (entry == 2 && variant < 2) entry = 0;
    trsm_case(a, variant, entry);
    VH_CASE_END
  }
  if (strstr(a->extra, "nosweep")) return 0;
  long sidx = 3000000;
  static const int KS[] = {1, 3, 8};
  for (int ki = 0; ki < 3; ki++)
    for (int n = 1; n <= 8 * KS[ki] + 9; n++, sidx++) {
      if (!VH_SHARD(a, sidx)) continue;
      vh_case_seed(a, sidx);
      VH_CASE(sidx)
      trsm_sweep_case(2 + (int)(sidx % 2), KS[ki], n);
      VH_CASE_END
    }
  return 0;
}

/* ------------------------------------------------------------------- inv */
/* the automatic table parameter grows with the dimension (and is capped so that a block of six tables fits one word):
 * one inversion large enough that an uncapped choice would not fit - a sparse invertible matrix, so that the trace
 * stays small and the validator can multiply it out */
static void inv_huge_case(void) {
  int n = 32768 + 64 * vh_randint(0, 2) + vh_randint(0, 1);
  vh_ev_t e;
  mzd_t *R = NULL;
  mzd_t *A = vh_new(n, n);
  vh_fill_sparse_invertible(A);
  vh_begin(&e, "inv_m4ri");
  vh_pi(&e, "k", 0);
  vh_opnd(&e, "D", 'o', NULL); vh_opnd(&e, "A", 'i', A);
  vh_pre(&e);
  if (VH_CALL(&e)) R = mzd_inv_m4ri(NULL, A, 0);
  VH_END(&e);
  if (!e.die) vh_result(&e, "R", R);
  vh_post(&e);
  vh_free_all();
}

static void inv_case(const vh_args_t *a, int op) {
  static const int NS[] = {1, 2, 3, 17, 63, 64, 65, 100, 127, 128, 129, 192, 193, 200, 256, 257};
  int n = NS[vh_randint(0, 15)];
  if (vh_randint(0, 3) == 0) n = vh_randint(1, a->tier ? 400 : 200);
  if (vh_randint(0, a->tier ? 8 : 12) == 0) n = vh_pick((int[]){362, 363, 364, 384, 400}, 5); /* trtri recursion threshold (small cache) */
  if ((op == 2 || op == 3) && vh_randint(0, a->tier ? 10 : 20) == 0) n = vh_pick((int[]){512, 513, 576}, 3);  /* 8 / 9 words from a block to the end of the row */
  vh_ev_t e;
  mzd_t *R = NULL;
  int k = vh_randint(0, 8);
  /* C05 quantifies over ALL k for the Four-Russians inversion (the argument is a hint): also values beyond the
   * range in which the elimination itself accepts an explicit k */
  if (op == 0 && vh_randint(0, 2) == 0) k = vh_pick((int[]){9, 10, 11, 12, 13, 16, 17, 24}, 8);
  if (op == 0 || op == 1) {
    mzd_t *A = vh_mk(n, n, -1);
    vh_fill_invertible(A);
    if (vh_randint(0, 5) == 0) vh_fill_identity(A);
    else if (vh_randint(0, 3) == 0) vh_fill_sparse_invertible(A);
    if (op == 0) {
      mzd_t *D = vh_randint(0, 1) ? NULL : vh_mk_kind(n, n, 0);
      vh_begin(&e, "inv_m4ri");
      vh_pi(&e, "k", k);
      vh_opnd(&e, "D", 'o', D); vh_opnd(&e, "A", 'i', A);
      vh_pre(&e);
      if (VH_CALL(&e)) R = mzd_inv_m4ri(D, A, k);
      VH_END(&e);
    } else {
      mzd_t *I = vh_mk(n, n, -1);
      vh_fill_identity(I);
      mzd_t *D = vh_randint(0, 1) ? NULL : vh_mk_kind(n, n, 0);
      vh_begin(&e, "invert_naive");
      vh_opnd(&e, "D", 'o', D); vh_opnd(&e, "A", 'i', A); vh_opnd(&e, "I", 'i', I);
      vh_pre(&e);
      if (VH_CALL(&e)) R = mzd_invert_naive(D, A, I);
      VH_END(&e);
    }
    if (!e.die) vh_result(&e, "R", R);
    vh_post(&e);
  } else {
    /* unit upper triangular, inverted in place */
    mzd_t *U = vh_mk(n, n, -1);
    vh_fill_dense(U);
    for (int i = 0; i < n; i++) {
      for (int j = 0; j < i; j++) U->data[(size_t)i * U->rowstride + j / 64] &= ~((word)1 << (j % 64));
      U->data[(size_t)i * U->rowstride + i / 64] |= (word)1 << (i % 64);
    }
    if (vh_randint(0, 4) == 0) vh_fill_identity(U);
    vh_begin(&e, op == 2 ? "trtri_upper" : "trtri_upper_russian");
    vh_pi(&e, "k", k);
    vh_opnd(&e, "U", 'b', U);
    vh_pre(&e);
    if (VH_CALL(&e)) { if (op == 2) mzd_trtri_upper(U); else mzd_trtri_upper_russian(U, k); }
    VH_END(&e);
    vh_post(&e);
  }
  vh_free_all();
}

/* Four-Russians inversion for every residue of n modulo the elimination block width (6k = 36 for 128 <= n < 512): the last
 * block then holds every number of pivots 1 .. 36, i.e. every table count and every split of the tables */
static void inv_sweep_case(int n) {
  vh_ev_t e;
  mzd_t *A = vh_mk(n, n, -1), *R = NULL;
  if (vh_randint(0, 2)) vh_fill_invertible(A); else vh_fill_sparse_invertible(A);
  vh_begin(&e, "inv_m4ri");
  vh_pi(&e, "k", 0);
  vh_opnd(&e, "D", 'o', NULL); vh_opnd(&e, "A", 'i', A);
  vh_pre(&e);
  if (VH_CALL(&e)) R = mzd_inv_m4ri(NULL, A, 0);
  VH_END(&e);
  if (!e.die) vh_result(&e, "R", R);
  vh_post(&e);
  vh_free_all();
}

int fam_inv(const vh_args_t *a) {
  int ncases = a->cases ? a->cases : (a->tier ? 2400 : 400);
  for (long idx = 0; idx < ncases; idx++) {
    if (!VH_SHARD(a, idx)) continue;
    vh_case_seed(a, idx);
    VH_CASE(idx)
    inv_case(a, (int)(idx % 4));
    VH_CASE_END
  }
  if (strstr(a->extra, "huge")) {
    long hidx = 5000000;
    if (VH_SHARD(a, hidx)) { vh_case_seed(a, hidx); VH_CASE(hidx) inv_huge_case(); VH_CASE_END }
  }
  if (strstr(a->extra, "nosweep")) return 0;
  long sidx = ncases;
  for (int n = 128; n < 128 + 36 + 8; n++, sidx++) {
    if (!VH_SHARD(a, sidx)) continue;
    vh_case_seed(a, sidx);
    VH_CASE(sidx)
    inv_sweep_case(n);
    VH_CASE_END
  }
  return 0;
}

/* ----------------------------------------------------------------- solve */
/* own GF(2) product through raw words: C = A * X (C owner, zeroed) */
static void raw_mul(mzd_t *C, mzd_t *A, mzd_t *X) {
  for (int i = 0; i < A->nrows; i++)
    for (int j = 0; j < A->ncols; j++)
      if ((A->data[(size_t)i * A->rowstride + j / 64] >> (j % 64)) & 1)
        for (int w = 0; w < X->width; w++) {
          word v = X->data[(size_t)j * X->rowstride + w];
          if (w == X->width - 1 && X->ncols % 64) v &= (~(word)0) >> (64 - X->ncols % 64);
          C->data[(size_t)i * C->rowstride + w] ^= v;
        }
}

/* shapes whose factorisation enters the block recursion in the small-cache configuration (more than 8192 words) */
static const int BIGM[] = {2100, 1400, 600, 1030, 300, 560};
static const int BIGN[] = {260, 400, 900, 500, 2000, 960};

static void solve_case(const vh_args_t *a, int op, int big) {
  int cap = a->tier ? 400 : 200;
  int m = vh_dim_small(cap), n = vh_dim_small(cap);
  switch (vh_randint(0, 2)) { case 0: n = m; break; default: break; }
  int w = vh_pick((int[]){1, 2, 63, 64, 65, 100}, 6);
  if (big) { m = BIGM[(big - 1) % 6]; n = BIGN[(big - 1) % 6]; w = vh_pick((int[]){1, 3, 64, 65}, 4); }
  int mx = m > n ? m : n;
  mzd_t *A = vh_mk(m, n, -1);
  vh_fill_profile(A, big ? vh_pick((int[]){0, 1, 3, 9}, 4) : pick_style());
  if (big && vh_randint(0, 3) != 0) shape_halves(A, vh_randint(0, 1));
  mzd_t *A0 = vh_new(m, n); /* pristine copy for the oracle (not passed to the call) */
  for (int i = 0; i < m; i++) for (int j = 0; j < A->width; j++) {
    word v = A->data[(size_t)i * A->rowstride + j];
    if (j == A->width - 1 && n % 64) v &= (~(word)0) >> (64 - n % 64);
    A0->data[(size_t)i * A0->rowstride + j] = v;
  }
  mzd_t *B = vh_mk(mx, w, -1);
  vh_fill_kind(B, 2);
  int mode = vh_randint(0, 5);
  /* mode 0,1: consistent B = A*X0 ; 2: random B ; 3: consistent + one bit in a row range ; 4: inconsistent only in padding row m ; 5: padding row m+1 / last */
  if (mode != 2) {
    mzd_t *X0 = vh_new(n, w);
    vh_fill_dense(X0);
    mzd_t *T = vh_new(m, w);
    raw_mul(T, A0, X0);
    for (int i = 0; i < m; i++) for (int j = 0; j < w; j++)
      if ((T->data[(size_t)i * T->rowstride + j / 64] >> (j % 64)) & 1) B->data[(size_t)i * B->rowstride + j / 64] |= (word)1 << (j % 64);
    vh_free(X0); vh_free(T);
  } else vh_fill_dense(B);
  if (mode == 3) { int i = vh_randint(0, m - 1), j = vh_randint(0, w - 1); B->data[(size_t)i * B->rowstride + j / 64] ^= (word)1 << (j % 64); }
  if (mode >= 4 && mx > m) {
    int i = (mode == 4) ? m : (vh_randint(0, 1) && m + 1 < mx ? m + 1 : mx - 1);
    int j = vh_randint(0, w - 1);
    B->data[(size_t)i * B->rowstride + j / 64] |= (word)1 << (j % 64);
  }
  static const int cuts[] = {0, 0, 64, 128};
  int cutoff = cuts[vh_randint(0, 3)];
  vh_ev_t e;
  if (op == 0 || op == 1) {
    vh_begin(&e, op == 0 ? "solve_left" : "_solve_left");
    int chk = vh_randint(0, 3) != 0;
    vh_pi(&e, "cutoff", cutoff); vh_pi(&e, "mode", mode); vh_pi(&e, "check", chk);
    vh_opnd(&e, "A", 'b', A); vh_opnd(&e, "B", 'b', B); vh_opnd(&e, "A0", 'i', A0);
    vh_pre(&e);
    if (VH_CALL(&e)) e.ret = (op == 0) ? mzd_solve_left(A, B, cutoff, chk) : _mzd_solve_left(A, B, cutoff, chk);
    VH_END(&e);
    vh_post(&e);
  } else {
    /* variant handed a previously computed PLUQ factorisation (logged as its own event) */
    mzp_t *P = mzp_init(m), *Q = mzp_init(n);
    long rank = 0;
    vh_begin(&e, "pluq");
    vh_pi(&e, "cutoff", cutoff); vh_pi(&e, "k", 0); vh_pi(&e, "big", 0); vh_pi(&e, "isple", 0);
    vh_opnd(&e, "A", 'b', A);
    vh_pre(&e);
    if (VH_CALL(&e)) rank = e.ret = mzd_pluq(A, P, Q, cutoff);
    VH_END(&e);
    vh_pa(&e, "P", P->values, m); vh_pa(&e, "Q", Q->values, n);
    vh_post(&e);
    if (!e.die) {
      vh_begin(&e, op == 2 ? "pluq_solve_left" : "_pluq_solve_left");
      int chk = vh_randint(0, 3) != 0;      /* a quarter of the calls without the consistency check (verdict 0, the undefined rows are cleared) */
      vh_pi(&e, "cutoff", cutoff); vh_pi(&e, "mode", mode); vh_pi(&e, "rank", rank); vh_pi(&e, "check", chk);
      vh_opnd(&e, "A", 'i', A); vh_opnd(&e, "B", 'b', B); vh_opnd(&e, "A0", 'i', A0);
      vh_pre(&e);
      if (VH_CALL(&e)) e.ret = (op == 2) ? mzd_pluq_solve_left(A, rank, P, Q, B, cutoff, chk) : _mzd_pluq_solve_left(A, rank, P, Q, B, cutoff, chk);
      VH_END(&e);
      vh_post(&e);
    }
    mzp_free(P); mzp_free(Q);
  }
  vh_free_all();
}

int fam_solve(const vh_args_t *a) {
  int ncases = a->cases ? a->cases : (a->tier ? 3000 : 600);
  for (long idx = 0; idx < ncases; idx++) {
    if (!VH_SHARD(a, idx)) continue;
    vh_case_seed(a, idx);
    VH_CASE(idx)
    solve_case(a, (int)(idx % 4), 0);
    VH_CASE_END
  }
  if (strstr(a->extra, "nobig")) return 0;
  for (long b = 0; b < (a->tier ? 36 : 6); b++) {
    long bidx = 6000000 + b;
    if (!VH_SHARD(a, bidx)) continue;
    vh_case_seed(a, bidx);
    VH_CASE(bidx)
    solve_case(a, (int)((b / 6 + b) % 4), 1 + (int)b);
    VH_CASE_END
  }
  return 0;
}

/* ---------------------------------------------------------------- kernel */
static void kernel_case(const vh_args_t *a, int big) {
  int cap = a->tier ? 400 : 220;
  int m = vh_dim_small(cap), n = vh_dim_small(cap);
  if (big) { m = BIGM[(big - 1) % 6]; n = BIGN[(big - 1) % 6]; }
  if (big && n == 2000) { m = 450; n = 1300; }   /* (the validator has to reduce the n x (n - r) result) */
  mzd_t *A = vh_mk(m, n, -1);
  vh_fill_profile(A, big ? vh_pick((int[]){0, 1, 3, 9}, 4) : pick_style());
  if (big && vh_randint(0, 3) != 0) shape_halves(A, vh_randint(0, 1));
  mzd_t *A0 = vh_new(m, n);
  for (int i = 0; i < m; i++) for (int j = 0; j < A->width; j++) {
    word v = A->data[(size_t)i * A->rowstride + j];
    if (j == A->width - 1 && n % 64) v &= (~(word)0) >> (64 - n % 64);
    A0->data[(size_t)i * A0->rowstride + j] = v;
  }
  static const int cuts[] = {0, 0, 64, 128};
  int cutoff = cuts[vh_randint(0, 3)];
  vh_ev_t e;
  mzd_t *K = NULL;
  vh_begin(&e, "kernel_left_pluq");
  vh_pi(&e, "cutoff", cutoff);
  vh_opnd(&e, "A", 'b', A); vh_opnd(&e, "A0", 'i', A0);
  vh_pre(&e);
  if (VH_CALL(&e)) K = mzd_kernel_left_pluq(A, cutoff);
  VH_END(&e);
  if (!e.die) vh_result(&e, "K", K);
  vh_post(&e);
  vh_free_all();
}

int fam_kernel(const vh_args_t *a) {
  int ncases = a->cases ? a->cases : (a->tier ? 2400 : 400);
  for (long idx = 0; idx < ncases; idx++) {
    if (!VH_SHARD(a, idx)) continue;
    vh_case_seed(a, idx);
    VH_CASE(idx)
    kernel_case(a, 0);
    VH_CASE_END
  }
  if (strstr(a->extra, "nobig")) return 0;
  for (long b = 0; b < (a->tier ? 24 : 6); b++) {
    long bidx = 6000000 + b;
    if (!VH_SHARD(a, bidx)) continue;
    vh_case_seed(a, bidx);
    VH_CASE(bidx)
    kernel_case(a, 1 + (int)b);
    VH_CASE_END
  }
  return 0;
}
