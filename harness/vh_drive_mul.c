/* vh_drive_mul.c - family "mul": every multiplication route (C01) */
#include "vh.h"
#include "vh_fam.h"

static const int DIMS_Q[] = {1, 2, 3, 15, 16, 17, 31, 33, 53, 54, 55, 63, 64, 65, 85, 86, 100, 127, 128, 129, 170, 171, 191, 192, 193, 255, 256, 257};
static const int NDIMS_Q = sizeof(DIMS_Q) / sizeof(int);

enum { R_NAIVE, R_ADDNAIVE, R_NAIVE_T, R_VA, R_M4RM, R_ADDM4RM, R__M4RM, R_MUL, R_ADDMUL, R_MULEVEN, R_ADDMULEVEN, R__ADDMUL, R_SQR, R_ADDSQR, R_MP, R_ADDMP, R_DJB, R_NROUTES };
static const char *RN[] = {"mul_naive", "addmul_naive", "_mul_naive_t", "_mul_va", "mul_m4rm", "addmul_m4rm", "_mul_m4rm", "mul", "addmul", "_mul_even", "_addmul_even", "_addmul", "sqr", "addsqr", "mul_mp", "addmul_mp", "djb"};

/* one multiplication case: C (+)= A*B by route. Logged operand order: C, A, B */
void vh_mul_case(int route, int m, int l, int n, int kindA, int kindB, int param, int cnull) {
  int sq = (route == R_SQR || route == R_ADDSQR);
  if (sq) { l = m; n = m; }
  /* vh_mk: owners, or (views mode, C09/C11) windows at sampled placements inside junk-filled parents */
  mzd_t *A = vh_mk(m, l, -1);
  vh_fill_kind(A, kindA);
  mzd_t *B = sq ? A : vh_mk(l, n, -1);
  if (!sq) vh_fill_kind(B, kindB);
  int acc = (route == R_ADDNAIVE || route == R_ADDM4RM || route == R_ADDMUL || route == R_ADDMULEVEN || route == R__ADDMUL || route == R_ADDSQR || route == R_ADDMP);
  int clear = 1;
  if (route == R_NAIVE_T || route == R_VA || route == R__M4RM) { clear = param & 1; param >>= 1; acc = !clear; }
  /* the accumulate routes that document / accept C == NULL ("zero matrix") */
  int nullacc = acc && cnull && (route == R_ADDMUL || route == R_ADDMP || route == R_ADDM4RM) && vh_randint(0, 2) == 0;
  int need_c = (acc && !nullacc) || !cnull || route == R_NAIVE_T || route == R_VA || route == R__M4RM || route == R_MULEVEN || route == R_DJB;
  mzd_t *C = need_c ? vh_mk(m, n, -1) : NULL;
  if (C) { if (acc) vh_fill_kind(C, 0); else if (route != R_DJB) vh_fill_kind(C, vh_randint(0, 3) ? 0 : 2); else vh_fill_kind(C, 2); /* DJB: a zeroed target */ }
  mzd_t *BT = NULL;
  if (route == R_NAIVE_T) {
    /* the route takes B pre-transposed; build it bit by bit, independent of mzd_transpose */
    /* always an owner: the internal routine relies on zero bits beyond the last column of (at least) the transposed factor,
     * which is what its only caller hands it (a fresh mzd_transpose) */
    BT = vh_mk(n, l, 0);
    for (int i = 0; i < l; i++)
      for (int j = 0; j < n; j++)
        if ((B->data[(size_t)i * B->rowstride + j / 64] >> (j % 64)) & 1) BT->data[(size_t)j * BT->rowstride + i / 64] |= (word)1 << (i % 64);
  }
  vh_ev_t e;
  vh_begin(&e, RN[route]);
  vh_pi(&e, "acc", acc);
  vh_pi(&e, "k", param);
  vh_opnd(&e, "C", acc ? 'b' : 'o', C);
  vh_opnd(&e, "A", 'i', A);
  vh_opnd(&e, "B", 'i', route == R_NAIVE_T ? BT : B);
  vh_pi(&e, "bt", route == R_NAIVE_T);
  vh_pre(&e);
  mzd_t *R = NULL;
  if (VH_CALL(&e)) {
    switch (route) {
    case R_NAIVE: R = mzd_mul_naive(C, A, B); break;
    case R_ADDNAIVE: R = mzd_addmul_naive(C, A, B); break;
    case R_NAIVE_T: R = _mzd_mul_naive(C, A, BT, clear); break;
    case R_VA: R = _mzd_mul_va(C, A, B, clear); break;
    case R_M4RM: R = mzd_mul_m4rm(C, A, B, param); break;
    case R_ADDM4RM: R = mzd_addmul_m4rm(C, A, B, param); break;
    case R__M4RM: R = _mzd_mul_m4rm(C, A, B, param, clear); break;
    case R_MUL: case R_SQR: R = mzd_mul(C, A, B, param); break;
    case R_ADDMUL: case R_ADDSQR: R = mzd_addmul(C, A, B, param); break;
    case R_MULEVEN: R = _mzd_mul_even(C, A, B, param < 64 ? 64 : param / 64 * 64); break;
    case R_ADDMULEVEN: R = _mzd_addmul_even(C, A, B, param < 64 ? 64 : param / 64 * 64); break;
    case R__ADDMUL: R = _mzd_addmul(C, A, B, param < 64 ? 64 : param / 64 * 64); break;
#if __M4RI_HAVE_OPENMP
    case R_MP: R = mzd_mul_mp(C, A, B, param); break;
    case R_ADDMP: R = mzd_addmul_mp(C, A, B, param); break;
#else
    case R_MP: R = mzd_mul(C, A, B, param); break;
    case R_ADDMP: R = mzd_addmul(C, A, B, param); break;
#endif
    case R_DJB: {
      /* compile A (the map v -> A*v acts on rows of B): W = A*B on a zeroed target */
      mzd_t *Ac = mzd_copy(NULL, A); /* djb_compile destroys its argument */
      djb_t *z = djb_compile(Ac);
      djb_apply_mzd(z, C, B);
      djb_free(z);
      mzd_free(Ac);
      R = C;
      break;
    }
    }
  }
  VH_END(&e);
  if (!e.die) vh_result(&e, "R", R);
  vh_post(&e);
  vh_free_all();
}

static int pick_dim(const vh_args_t *a) {
  int cap = a->maxdim ? a->maxdim : (a->tier ? 1100 : 260);
  for (;;) {
    int d;
    int r = vh_randint(0, 9);
    if (r < 7) d = DIMS_Q[vh_randint(0, NDIMS_Q - 1)];
    else if (r < 9) d = vh_randint(1, cap);
    else d = 64 * vh_randint(1, cap / 64 > 0 ? cap / 64 : 1) + vh_randint(-1, 1);
    if (a->tier && vh_randint(0, 3) == 0) {
      static const int big[] = {340, 341, 342, 383, 384, 385, 511, 512, 513, 640, 682, 683, 684, 767, 768, 769, 1023, 1024, 1025};
      d = big[vh_randint(0, 18)];
    }
    if (d >= 1 && d <= cap) return d;
  }
}

int fam_mul(const vh_args_t *a) {
  long idx = 0;
  int ncases = a->cases ? a->cases : (a->tier ? 6000 : 1100);
  long budget = a->tier ? (1L << 29) : (1L << 24);
  for (int cs = 0; cs < ncases; cs++, idx++) {
    if (!VH_SHARD(a, idx)) continue;
    vh_case_seed(a, idx);
    int route = cs % R_NROUTES;
    int m, l, n;
    for (;;) {
      m = pick_dim(a); l = pick_dim(a); n = pick_dim(a);
      if (route == R_SQR || route == R_ADDSQR) { l = n = m; }
      if (route == R_VA && vh_randint(0, 1)) m = 1;
      if (route == R_DJB && (m > 200 || l > 200)) continue;
      if (vh_randint(0, 5) == 0) {
        /* thin / fat shapes that switch between the cubic and the table paths: few rows, very wide rows
           (more than 8 words so that the unrolled word loops run), narrow results */
        static const int wide[] = {576, 640, 705, 1000, 1088, 1500, 1601};
        switch (vh_randint(0, 3)) {
        case 0: m = vh_randint(1, 15); n = wide[vh_randint(0, 6)]; l = vh_pick((int[]){1, 17, 64, 65, 130}, 5); break;
        case 1: m = vh_randint(1, 15); l = wide[vh_randint(0, 6)]; n = vh_pick((int[]){1, 53, 54, 64, 130}, 5); break;
        case 2: m = wide[vh_randint(0, 6)]; l = vh_pick((int[]){3, 64, 100}, 3); n = vh_randint(1, 53); break;
        default: m = 256 * vh_randint(1, 3); l = vh_pick((int[]){17, 64, 70}, 3); n = vh_randint(1, 53); break; /* exact multiples of the cubic block size */
        }
        if (route == R_SQR || route == R_ADDSQR) { m = vh_pick((int[]){8, 15, 100}, 3); l = n = m; }
        if (route == R_DJB && (m > 200 || l > 200)) continue;
      }
      if ((long)m * l * n <= budget) break;
    }
    static const int kinds[] = {0, 0, 0, 0, 1, 1, 2, 3, 4, 5, 6, 7};
    int kA = kinds[vh_randint(0, 11)], kB = kinds[vh_randint(0, 11)];
    int param = 0;
    switch (route) {
    case R_M4RM: case R_ADDM4RM: param = vh_randint(0, 10); break;
    case R__M4RM: param = vh_randint(0, 10) * 2 + vh_randint(0, 1); break;
    case R_NAIVE_T: case R_VA: param = vh_randint(0, 1); break;
    case R_MUL: case R_ADDMUL: case R_SQR: case R_ADDSQR: case R_MP: case R_ADDMP: case R_MULEVEN: case R_ADDMULEVEN: case R__ADDMUL: {
      static const int cut[] = {0, 1, 63, 64, 64, 64, 65, 127, 128, 128, 129, 192, 256, 512, 1024};
      param = cut[vh_randint(0, 14)];
      break;
    }
    }
    VH_CASE(idx)
    vh_mul_case(route, m, l, n, kA, kB, param, vh_randint(0, 1));
    VH_CASE_END
  }
  if (strstr(a->extra, "nosweep")) return 0;
  /* Strassen shape sweep: every combination of "exact multiple of the split unit" / "with a remainder strip" in
   * each of the three dimensions, one and two levels of recursion (cutoff 64), for the plain and the accumulate
   * route (and the squaring routes on the diagonal) */
  static const int SD[] = {128, 130, 192, 200, 256, 260};
  long sidx = 2000000;
  for (int im = 0; im < 6; im++)
    for (int il = 0; il < 6; il++)
      for (int in = 0; in < 6; in++)
        for (int acc = 0; acc < 2; acc++, sidx++) {
          if (!a->tier && (int)((im + il + in + acc + a->seed) % 3) != 0) continue;
          if (!VH_SHARD(a, sidx)) continue;
          vh_case_seed(a, sidx);
          VH_CASE(sidx)
          int sq = (im == il && il == in) && vh_randint(0, 1);
          int mp = !sq && ((im + 2 * il + in) % 3 == 0); /* a third through the multi-core front ends (the plain routes in builds without OpenMP) */
          vh_mul_case(sq ? (acc ? R_ADDSQR : R_SQR) : mp ? (acc ? R_ADDMP : R_MP) : (acc ? R_ADDMUL : R_MUL), SD[im], SD[il], SD[in], 0, 0, 64, vh_randint(0, 2) == 0);
          VH_CASE_END
        }
  /* Four-Russians products with an explicit k for every inner dimension l = 1 .. 8k + 9: whole blocks of 8 tables, the
   * remaining tables one at a time, and the last, narrower table; plain and accumulate */
  {
    static const int KS[] = {1, 4, 8};
    for (int ki = 0; ki < 3; ki++)
      for (int l = 1; l <= 8 * KS[ki] + 9; l++, sidx++) {
        if (!a->tier && (int)((l + ki + a->seed) % 2) != 0) continue;
        if (!VH_SHARD(a, sidx)) continue;
        vh_case_seed(a, sidx);
        VH_CASE(sidx)
        vh_mul_case((l & 1) ? R_ADDM4RM : R_M4RM, vh_pick((int[]){16, 33, 100}, 3), l, vh_pick((int[]){54, 64, 70, 130}, 4), 0, 0, KS[ki], 0);
        VH_CASE_END
      }
  }
  /* Four-Russians routes writing into a supplied result whose rows start at every word alignment (the tables are laid out
   * with the same alignment as the result): result widths with an even and an odd number of words, not multiples of 64 */
  if (vh_views) {
    static const int RN[] = {100, 230, 70, 190, 128};
    for (int w0 = 0; w0 < 4; w0++)
      for (int in = 0; in < 5; in++)
        for (int acc = 0; acc < 2; acc++, sidx++) {
          if (!a->tier && (int)((w0 + in + acc + a->seed) % 2) != 0) continue;
          if (!VH_SHARD(a, sidx)) continue;
          vh_case_seed(a, sidx);
          VH_CASE(sidx)
          vh_force_w0 = w0;
          vh_mul_case(acc ? R_ADDM4RM : R_M4RM, vh_pick((int[]){17, 40, 70}, 3), vh_pick((int[]){64, 70, 130}, 3), RN[in], 0, 0, vh_randint(0, 8), 0);
          vh_force_w0 = -1;
          VH_CASE_END
        }
  }
  return 0;
}
