/* vh_drive_threads.c - family "threads" (C15): K threads, each with its own trace context, run the
 * seeded op lists of the sequential families on thread-private matrices at the same time. Built with
 * -fsanitize=thread in the thread-safe configuration; a data race is reported by TSan on stderr, and
 * every thread's trace is validated against the sequential specification. */
#include "vh.h"
#include "vh_fam.h"
#include <pthread.h>

typedef struct { vh_args_t a; int tid; char path[512]; } targ_t;

static pthread_barrier_t bar;

static void *thread_main(void *p) {
  targ_t *t = (targ_t *)p;
  vh_ctx_new(t->path, t->a.seed, t->tid);
  vh_raw("{\"e\":\"cfg\",\"name\":\"%s\",\"thread\":%d,\"l1\":%d,\"l2\":%d,\"l3\":%d,\"mul_blocksize\":%d,\"strassen_cutoff\":%d,\"ple_cutoff\":%d}", VH_CFG, t->tid,
         __M4RI_CPU_L1_CACHE, __M4RI_CPU_L2_CACHE, __M4RI_CPU_L3_CACHE, (int)__M4RI_MUL_BLOCKSIZE, (int)__M4RI_STRASSEN_MUL_CUTOFF, (int)__M4RI_PLE_CUTOFF);
  static const char *fams[] = {"mul", "elim", "ple", "solve", "move", "trsm", "inv", "kernel", "rowops", "obs"};
  static const int counts[] = {40, 24, 24, 24, 40, 16, 12, 12, 30, 30};
  pthread_barrier_wait(&bar);
  vh_firstuse_cases();
  for (int round = 0; round < (t->a.tier ? 6 : 2); round++)
    for (int f = 0; f < 10; f++) {
      vh_args_t a = t->a;
      a.family = fams[(f + t->tid) % 10]; /* staggered so that different routines overlap as well */
      a.cases = counts[(f + t->tid) % 10] / 2 + 2;
      a.seed = t->a.seed * 1000 + t->tid * 17 + round;
      a.shard = 0; a.nshards = 1; a.only = -1;
      a.extra = "nobig,nosweep";
      a.maxdim = 200;
      if (!strcmp(a.family, "mul")) fam_mul(&a);
      else if (!strcmp(a.family, "elim")) fam_elim(&a);
      else if (!strcmp(a.family, "ple")) fam_ple(&a);
      else if (!strcmp(a.family, "solve")) fam_solve(&a);
      else if (!strcmp(a.family, "move")) fam_move(&a);
      else if (!strcmp(a.family, "trsm")) fam_trsm(&a);
      else if (!strcmp(a.family, "inv")) fam_inv(&a);
      else if (!strcmp(a.family, "kernel")) fam_kernel(&a);
      else if (!strcmp(a.family, "rowops")) fam_rowops(&a);
      else fam_obs(&a);
    }
  vh_raw("{\"e\":\"end\",\"events\":%ld}", CTX->nev);
  vh_ctx_close(CTX);
  return NULL;
}

int fam_threads(const vh_args_t *a) {
  int k = 4;
  const char *q = strstr(a->extra, "nthreads=");
  if (q) k = atoi(q + 9);
  if (k < 1) k = 1;
  if (k > 16) k = 16;
  vh_nofork = 1;
  vh_leakcheck = 0; /* the live-block counter is global: other threads' allocations would be counted */
  pthread_t th[16];
  targ_t ta[16];
  pthread_barrier_init(&bar, NULL, k);
  for (int i = 0; i < k; i++) {
    ta[i].a = *a;
    ta[i].tid = i;
    snprintf(ta[i].path, sizeof ta[i].path, "%s.t%d", a->out, i);
    pthread_create(&th[i], NULL, thread_main, &ta[i]);
  }
  for (int i = 0; i < k; i++) pthread_join(th[i], NULL);
  vh_raw("{\"e\":\"threads\",\"n\":%d}", k);
  return 0;
}
