/* vh_drive_io.c - family "io" (C18): PNG round trips, string constructor, JCF reader on
 * TLC-generated valid / corrupted / truncated files (spec/gen/Gen_JCF), foreign and malformed PNGs.
 * Readers of possibly malformed input run in a forked child; the child's fate and result are
 * reported to the parent, which logs the event judged by TLC. */
#include "vh.h"
#include "vh_fam.h"
#include <fcntl.h>
#include <png.h>
#include <signal.h>
#include <sys/stat.h>
#include <sys/wait.h>
#include <unistd.h>

extern int vh_die_fd;
static char tmpdir[256];

/* ---- PNG round trip / from_str (well-formed input, in process) ---- */
/* longdim: 0 ordinary shapes; 1 / 2: more than a million columns / rows (libpng's default limits end at 1000000: reader and
 * writer have to raise them), sparse content */
static void roundtrip_case(int longdim) {
  static const int NC[] = {1, 2, 3, 4, 5, 6, 7, 8, 9, 15, 16, 17, 31, 33, 63, 64, 65, 71, 100, 127, 128, 129, 192, 256};
  int n = NC[vh_randint(0, 23)], m = vh_randint(1, 40);
  if (vh_randint(0, 5) == 0) n = vh_randint(1, 300);
  mzd_t *A;
  if (longdim) {
    m = longdim == 1 ? vh_randint(1, 2) : 1000001 + vh_randint(0, 50);
    n = longdim == 1 ? 1000001 + vh_randint(0, 130) : vh_randint(1, 2);
    A = vh_new(m, n);
    for (int t = 0; t < 40; t++) mzd_write_bit(A, vh_randint(0, m - 1), vh_randint(0, n - 1), 1);
    mzd_write_bit(A, m - 1, n - 1, 1);
  } else
  A = vh_mk_kind(m, n, vh_pick((int[]){0, 0, 1, 2, 3, 5, 6}, 7));
  int level = vh_pick((int[]){0, 1, 9, 6}, 4), wc = vh_randint(0, 1);
  char fn[320];
  snprintf(fn, sizeof fn, "%s/rt.png", tmpdir);
  vh_ev_t e;
  mzd_t *R = NULL;
  vh_begin(&e, "png_roundtrip");
  vh_pi(&e, "level", level); vh_pi(&e, "comment", wc);
  vh_opnd(&e, "A", 'i', A);
  vh_pre(&e);
  if (VH_CALL(&e)) {
    e.ret = mzd_to_png(A, fn, level, wc ? "verif" : NULL, 0);
    R = mzd_from_png(fn, 0);
  }
  VH_END(&e);
  if (!e.die) vh_result(&e, "R", R);
  vh_post(&e);
  vh_free_all();
}

static void from_str_case(void) {
  int m = vh_randint(1, 12), n = vh_pick((int[]){1, 2, 7, 8, 9, 63, 64, 65, 70}, 9);
  char *s = (char *)vh_xmalloc((size_t)m * n + 1);
  for (int i = 0; i < m * n; i++) s[i] = vh_randint(0, 3) ? (vh_randint(0, 1) ? '1' : '0') : ' ';
  s[m * n] = 0;
  vh_ev_t e;
  mzd_t *R = NULL;
  vh_begin(&e, "from_str");
  vh_pi(&e, "m", m); vh_pi(&e, "n", n);
  /* the string is logged as the list of positions holding '1' */
  rci_t *ones = (rci_t *)vh_xmalloc(sizeof(rci_t) * ((size_t)m * n + 1));
  int no = 0;
  for (int i = 0; i < m * n; i++) if (s[i] == '1') ones[no++] = i;
  vh_pa(&e, "ones", ones, no);
  vh_pre(&e);
  if (VH_CALL(&e)) R = mzd_from_str(m, n, s);
  VH_END(&e);
  if (!e.die) vh_result(&e, "R", R);
  vh_post(&e);
  vh_xfree(ones); vh_xfree(s);
  vh_free_all();
}

/* ---- readers on possibly malformed files: child process, fate reported through a pipe ---- */
typedef struct { char out; int san; int sig; mzd_t *M; } fate_t;

static fate_t read_in_child(const char *fn, int is_png) {
  fate_t f = {'?', 0, 0, NULL};
  int pp[2];
  if (pipe(pp)) { perror("pipe"); exit(2); }
  char errfn[320];
  snprintf(errfn, sizeof errfn, "%s/stderr.txt", tmpdir);
  fflush(CTX->f);
  pid_t pid = fork();
  if (pid == 0) {
    close(pp[0]);
    int efd = open(errfn, O_WRONLY | O_CREAT | O_TRUNC, 0644);
    if (efd >= 0) { dup2(efd, 2); dup2(efd, 1); }
    vh_die_fd = pp[1];
    mzd_t *M = is_png ? mzd_from_png(fn, 0) : mzd_from_jcf(fn, 0);
    if (!M) { if (write(pp[1], "N", 1) < 0) {} _exit(0); }
    if (M->nrows > 4096 || M->ncols > 4096 || M->nrows < 0 || M->ncols < 0) { if (write(pp[1], "H", 1) < 0) {} _exit(0); }
    int hdr[3] = {M->nrows, M->ncols, M->width};
    if (write(pp[1], "M", 1) < 0 || write(pp[1], hdr, sizeof hdr) < 0) {}
    for (int i = 0; i < M->nrows; i++)
      if (M->width > 0 && write(pp[1], M->data + (size_t)i * M->rowstride, sizeof(word) * M->width) < 0) {}
    _exit(0);
  }
  close(pp[1]);
  size_t cap = 1 << 16, got = 0;
  char *buf = (char *)vh_xmalloc(cap);
  ssize_t k;
  while ((k = read(pp[0], buf + got, cap - got)) > 0) { got += k; if (got == cap) { char *nb = (char *)vh_xmalloc(cap * 2); memcpy(nb, buf, got); vh_xfree(buf); buf = nb; cap *= 2; } }
  close(pp[0]);
  int st = 0;
  waitpid(pid, &st, 0);
  f.sig = WIFSIGNALED(st) ? WTERMSIG(st) : 0;
  /* sanitizer / runtime-error output? */
  FILE *ef = fopen(errfn, "r");
  if (ef) {
    char line[512];
    while (fgets(line, sizeof line, ef))
      if (strstr(line, "Sanitizer") || strstr(line, "runtime error")) f.san = 1;
    fclose(ef);
  }
  if (got >= 1 && buf[0] == 'M' && got >= 1 + 3 * sizeof(int) && f.sig == 0) {
    int hdr[3];
    memcpy(hdr, buf + 1, sizeof hdr);
    size_t need = 1 + sizeof hdr + (size_t)hdr[0] * hdr[2] * sizeof(word);
    if (got >= need) {
      f.out = 'M';
      f.M = vh_new(hdr[0], hdr[1]);
      for (int i = 0; i < hdr[0]; i++)
        if (hdr[2] > 0) memcpy(f.M->data + (size_t)i * f.M->rowstride, buf + 1 + sizeof hdr + (size_t)i * hdr[2] * sizeof(word), sizeof(word) * hdr[2]);
    } else f.out = 'C';
  } else if (got >= 1 && buf[0] == 'N' && f.sig == 0) f.out = 'N';
  else if (got >= 1 && buf[0] == 'H' && f.sig == 0) f.out = 'H';                 /* huge / nonsensical matrix returned */
  else if (got >= 1 && buf[0] == 'D' && f.sig == SIGABRT) f.out = 'D';          /* library's error handler */
  else if (f.sig == SIGABRT && !f.san) f.out = 'T';                              /* terminated by abort() (libpng error path) */
  else f.out = 'C';                                                               /* crash: SIGSEGV/SIGBUS/..., or sanitizer report */
  vh_xfree(buf);
  return f;
}

static const char *outname(char c) {
  switch (c) { case 'M': return "matrix"; case 'N': return "null"; case 'D': return "die"; case 'T': return "terminated"; case 'H': return "huge"; default: return "crash"; }
}

static void jcf_case(const char *line) {
  /* {"toks":[...],"gpos":k} */
  long toks[64];
  int nt = 0, gpos = 0;
  const char *q = strstr(line, "\"toks\":[");
  if (!q) return;
  q += 8;
  while (*q && *q != ']') {
    if (*q == '-' || (*q >= '0' && *q <= '9')) { toks[nt++] = strtol(q, (char **)&q, 10); if (nt >= 64) break; }
    else q++;
  }
  const char *g = strstr(line, "\"gpos\":");
  if (g) gpos = atoi(g + 7);
  char fn[320];
  snprintf(fn, sizeof fn, "%s/c.jcf", tmpdir);
  FILE *f = fopen(fn, "w");
  for (int i = 0; i < nt; i++) {
    if (gpos == i + 1) fprintf(f, "x%s", (i == 2 || i == 3) ? "\n" : " ");
    else if (i < 3) fprintf(f, "%ld%s", toks[i], i == 2 ? "\n" : " ");
    else fprintf(f, "%ld\n", toks[i]);
    if (i == 3) fprintf(f, "\n");
  }
  fclose(f);
  fate_t r = read_in_child(fn, 0);
  vh_ev_t e;
  vh_begin(&e, "jcf");
  rci_t tk[64];
  for (int i = 0; i < nt; i++) tk[i] = (rci_t)toks[i];
  vh_pa(&e, "toks", tk, nt);
  vh_pi(&e, "gpos", gpos);
  vh_ps(&e, "out", outname(r.out));
  vh_pi(&e, "san", r.san); vh_pi(&e, "sig", r.sig);
  vh_pre(&e);
  if (r.M) vh_opnd(&e, "R", 'r', r.M);
  vh_post(&e);
  vh_free_all();
}

/* ---- foreign / malformed PNG files written with libpng ---- */
static int write_png(const char *fn, int w, int h, int depth, int ctype, int interlace) {
  FILE *fh = fopen(fn, "wb");
  if (!fh) return 1;
  png_structp p = png_create_write_struct(PNG_LIBPNG_VER_STRING, NULL, NULL, NULL);
  png_infop inf = png_create_info_struct(p);
  if (setjmp(png_jmpbuf(p))) { png_destroy_write_struct(&p, &inf); fclose(fh); return 2; }
  png_init_io(p, fh);
  png_set_IHDR(p, inf, w, h, depth, ctype, interlace ? PNG_INTERLACE_ADAM7 : PNG_INTERLACE_NONE, PNG_COMPRESSION_TYPE_DEFAULT, PNG_FILTER_TYPE_DEFAULT);
  if (ctype == PNG_COLOR_TYPE_PALETTE) {
    png_color pal[2] = {{0, 0, 0}, {255, 255, 255}};
    png_set_PLTE(p, inf, pal, 2);
  }
  png_write_info(p, inf);
  int channels = (ctype == 0 || ctype == 3) ? 1 : ctype == 2 ? 3 : ctype == 4 ? 2 : 4;
  size_t rowbytes = ((size_t)w * depth * channels + 7) / 8;
  png_bytep *rows = (png_bytep *)vh_xmalloc(sizeof(png_bytep) * h);
  for (int i = 0; i < h; i++) {
    rows[i] = (png_bytep)vh_xmalloc(rowbytes + 8);
    for (size_t j = 0; j < rowbytes; j++) rows[i][j] = (png_byte)((ctype == 3 && depth > 1) ? 0 : vh_rand());
  }
  png_write_image(p, rows);
  png_write_end(p, inf);
  png_destroy_write_struct(&p, &inf);
  fclose(fh);
  for (int i = 0; i < h; i++) vh_xfree(rows[i]);
  vh_xfree(rows);
  return 0;
}

static void png_foreign_case(int depth, int ctype, int interlace, int mut) {
  /* admissible (depth, colour type) pairs of the PNG specification */
  int w = vh_pick((int[]){1, 7, 8, 9, 33, 64, 65, 130}, 8), h = vh_randint(1, 20);
  char fn[320];
  snprintf(fn, sizeof fn, "%s/f.png", tmpdir);
  if (write_png(fn, w, h, depth, ctype, interlace)) return;
  struct stat sb;
  stat(fn, &sb);
  long pos = -1;
  if (mut == 1) { /* truncation */
    long cuts[] = {4, 8, 20, 33, 45, sb.st_size / 2, sb.st_size - 12, sb.st_size - 1};
    pos = cuts[vh_randint(0, 7)];
    if (pos < 0) pos = 0;
    if (pos >= sb.st_size) pos = sb.st_size - 1;
    if (truncate(fn, pos)) {}
  } else if (mut == 2) { /* single corrupted byte */
    pos = vh_randint(0, 3) == 0 ? vh_randint(8, 32) : vh_randint(8, (int)sb.st_size - 1);
    int fd = open(fn, O_RDWR);
    unsigned char b;
    if (pread(fd, &b, 1, pos) == 1) { b ^= (unsigned char)(1 << vh_randint(0, 7)); if (pwrite(fd, &b, 1, pos) < 0) {} }
    close(fd);
  }
  fate_t r = read_in_child(fn, 1);
  vh_ev_t e;
  vh_begin(&e, "png_foreign");
  vh_pi(&e, "depth", depth); vh_pi(&e, "ctype", ctype); vh_pi(&e, "interlace", interlace); vh_pi(&e, "mut", mut); vh_pi(&e, "pos", pos);
  vh_pi(&e, "w", w); vh_pi(&e, "h", h);
  vh_ps(&e, "out", outname(r.out));
  vh_pi(&e, "san", r.san); vh_pi(&e, "sig", r.sig);
  vh_pre(&e);
  if (r.M) vh_opnd(&e, "R", 'r', r.M);
  vh_post(&e);
  vh_free_all();
}

int fam_io(const vh_args_t *a) {
  snprintf(tmpdir, sizeof tmpdir, "%s.tmp.%d", a->out, (int)getpid());
  mkdir(tmpdir, 0755);
  long idx = 0;
  int nrt = a->cases ? a->cases : (a->tier ? 1500 : 300);
  for (int t = 0; t < nrt; t++, idx++) if (VH_SHARD(a, idx)) {
    vh_case_seed(a, idx);
    VH_CASE(idx)
    if (t % 4 == 3) from_str_case(); else roundtrip_case(0);
    VH_CASE_END
  }
  for (int t = 1; t <= 2; t++, idx++) if (VH_SHARD(a, idx)) {
    vh_case_seed(a, idx);
    VH_CASE(idx)
    roundtrip_case(t);
    VH_CASE_END
  }
  const char *jf = strstr(a->extra, "jcf=");
  if (jf) {
    FILE *f = fopen(jf + 4, "r");
    if (!f) { perror(jf + 4); return 2; }
    char *line = NULL;
    size_t cap = 0;
    while (getline(&line, &cap, f) > 0) {
      if (line[0] == '{' && VH_SHARD(a, idx)) { vh_case_seed(a, idx); jcf_case(line); }
      idx++;
    }
    vh_xfree(line);
    fclose(f);
  }
  static const int pairs[][2] = {{1, 0}, {2, 0}, {4, 0}, {8, 0}, {16, 0}, {8, 2}, {16, 2}, {1, 3}, {2, 3}, {4, 3}, {8, 3}, {8, 4}, {16, 4}, {8, 6}, {16, 6}};
  int reps = a->tier ? 12 : 3;
  for (int pi = 0; pi < 15; pi++)
    for (int il = 0; il < 2; il++)
      for (int mut = 0; mut < 3; mut++)
        for (int r = 0; r < (mut ? reps : 1); r++, idx++)
          if (VH_SHARD(a, idx)) { vh_case_seed(a, idx); png_foreign_case(pairs[pi][0], pairs[pi][1], il, mut); }
  char cmd[400];
  snprintf(cmd, sizeof cmd, "rm -rf '%s'", tmpdir);
  if (system(cmd)) {}
  return 0;
}
