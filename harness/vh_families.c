/* vh_families.c - family dispatch */
#include "vh.h"
#include "vh_fam.h"

typedef struct { const char *name; int (*fn)(const vh_args_t *); } fam_t;
static const fam_t FAMS[] = {
  {"mul", fam_mul},
  {"move", fam_move},
  {"rowops", fam_rowops},
  {"obs", fam_obs},
  {"elim", fam_elim},
  {"ple", fam_ple},
  {"trsm", fam_trsm},
  {"inv", fam_inv},
  {"solve", fam_solve},
  {"kernel", fam_kernel},
  {"kernels", fam_kernels},
  {"alloc", fam_alloc},
  {"fault", fam_fault},
  {"io", fam_io},
  {"baddims", fam_baddims},
  {"threads", fam_threads},
  {"omp", fam_omp},
  {"prog", fam_prog},
  {NULL, NULL}};

static void cfg_event(void) {
  vh_raw("{\"e\":\"cfg\",\"name\":\"%s\",\"sse2\":%d,\"omp\":%d,\"mmc\":%d,\"l1\":%d,\"l2\":%d,\"l3\":%d,\"mul_blocksize\":%d,\"strassen_cutoff\":%d,\"ple_cutoff\":%d}",
         VH_CFG, __M4RI_HAVE_SSE2, __M4RI_HAVE_OPENMP, __M4RI_ENABLE_MMC, __M4RI_CPU_L1_CACHE, __M4RI_CPU_L2_CACHE, __M4RI_CPU_L3_CACHE,
         (int)__M4RI_MUL_BLOCKSIZE, (int)__M4RI_STRASSEN_MUL_CUTOFF, (int)__M4RI_PLE_CUTOFF);
}

int vh_run_family(const vh_args_t *a) {
  if (getenv("VH_NOFORK")) vh_nofork = 1;
  for (const fam_t *f = FAMS; f->name; f++)
    if (!strcmp(f->name, a->family)) {
      vh_ctx_new(a->out, a->seed, 0);
      if (strstr(a->extra, "views")) vh_views = 1;
      if (strstr(a->extra, "mixviews")) vh_views = 2;
      if (a->env & 1) vh_poison_alloc = 1;
      if (a->env & 2) vh_poison_free = 1;
      if (a->env & 4) vh_npass = 2;
      vh_leakcheck = !__M4RI_ENABLE_MMC;
      cfg_event();
      int r = f->fn(a);
      vh_raw("{\"e\":\"end\",\"events\":%ld}", CTX->nev);
      vh_ctx_close(CTX);
      return r;
    }
  fprintf(stderr, "unknown family %s\n", a->family);
  return 2;
}
