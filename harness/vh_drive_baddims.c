/* vh_drive_baddims.c - family "baddims" (C11): the checked public wrappers called with incompatible
 * dimensions must end in the library's error handler before any operand is touched. */
#include "vh.h"
#include "vh_fam.h"

static void bad(const char *name, int which, mzd_t *X, mzd_t *Y, mzd_t *Z, mzp_t *P, mzp_t *Q) {
  vh_ev_t e;
  vh_begin(&e, "baddims");
  vh_ps(&e, "fn", name);
  vh_pi(&e, "expect_die", 1);
  vh_opnd(&e, "X", 'i', X); vh_opnd(&e, "Y", 'i', Y); vh_opnd(&e, "Z", 'i', Z);
  vh_pre(&e);
  if (VH_CALL(&e)) {
    switch (which) {
    case 0: mzd_mul(X, Y, Z, 0); break;
    case 1: mzd_addmul(X, Y, Z, 0); break;
    case 2: mzd_mul_naive(X, Y, Z); break;
    case 3: mzd_addmul_naive(X, Y, Z); break;
    case 4: mzd_mul_m4rm(X, Y, Z, 0); break;
    case 5: mzd_addmul_m4rm(X, Y, Z, 0); break;
    case 6: mzd_add(X, Y, Z); break;
    case 7: mzd_transpose(X, Y); break;
    case 8: mzd_copy(X, Y); break;
    case 9: mzd_concat(X, Y, Z); break;
    case 10: mzd_stack(X, Y, Z); break;
    case 11: mzd_submatrix(X, Y, 0, 0, Y->nrows, Y->ncols); break;
    case 12: mzd_trsm_upper_right(X, Y, 0); break;
    case 13: mzd_trsm_lower_right(X, Y, 0); break;
    case 14: mzd_trsm_lower_left(X, Y, 0); break;
    case 15: mzd_trsm_upper_left(X, Y, 0); break;
    case 16: mzd_solve_left(X, Y, 0, 1); break;
    case 17: mzd_ple(X, P, Q, 0); break;
    case 18: mzd_pluq(X, P, Q, 0); break;
    case 19: mzd_pluq_solve_left(X, 1, P, Q, Y, 0, 1); break;
    case 20: mzd_mul(NULL, Y, Z, -1); break;
    case 21: mzd_addmul(X, Y, Z, -1); break;
    case 22: mzp_copy(P, Q); break;
#if __M4RI_HAVE_OPENMP
    case 23: mzd_mul_mp(X, Y, Z, 0); break;
    case 24: mzd_addmul_mp(X, Y, Z, 0); break;
    case 25: mzd_mul_mp(NULL, Y, Z, -1); break;
#endif
    }
  }
  VH_END(&e);
  vh_post(&e);
}

static void baddims_case(void) {
  int m = vh_dim_small(150), l = vh_dim_small(150), n = vh_dim_small(150);
  int d = vh_pick((int[]){1, 1, 2, 63, 64, 65}, 6);
  #if __M4RI_HAVE_OPENMP
  int which = vh_randint(0, 25);
#else
  int which = vh_randint(0, 22);
#endif
  mzd_t *X = NULL, *Y = NULL, *Z = NULL;
  mzp_t *P = NULL, *Q = NULL;
  static const char *names[] = {"mzd_mul", "mzd_addmul", "mzd_mul_naive", "mzd_addmul_naive", "mzd_mul_m4rm", "mzd_addmul_m4rm", "mzd_add", "mzd_transpose", "mzd_copy",
                                "mzd_concat", "mzd_stack", "mzd_submatrix", "mzd_trsm_upper_right", "mzd_trsm_lower_right", "mzd_trsm_lower_left", "mzd_trsm_upper_left",
                                "mzd_solve_left", "mzd_ple", "mzd_pluq", "mzd_pluq_solve_left", "mzd_mul_negative_cutoff",
                                "mzd_addmul_negative_cutoff", "mzp_copy", "mzd_mul_mp", "mzd_addmul_mp", "mzd_mul_mp_negative_cutoff"};
  int v = vh_randint(0, 2);
  switch (which) {
  case 0: case 1: case 2: case 3: case 4: case 5: case 23: case 24:
    /* inner dimensions differ, or the supplied result has the wrong shape */
    if (v == 0) { X = vh_mk_kind(m, n, 0); Y = vh_mk_kind(m, l, 0); Z = vh_mk_kind(l + d, n, 0); }
    else if (v == 1) { X = vh_mk_kind(m + d, n, 0); Y = vh_mk_kind(m, l, 0); Z = vh_mk_kind(l, n, 0); }
    else { X = vh_mk_kind(m, n + d, 0); Y = vh_mk_kind(m, l, 0); Z = vh_mk_kind(l, n, 0); }
    if (which == 2 && v == 0) which = 0; /* mzd_mul_naive checks only the result shape */
    if (which == 3) which = 1;           /* mzd_addmul_naive performs no checks: not a checked wrapper */
    break;
  case 6:
    if (v == 0) { X = NULL; Y = vh_mk_kind(m, n, 0); Z = vh_mk_kind(m + d, n, 0); }
    else if (v == 1) { X = NULL; Y = vh_mk_kind(m, n, 0); Z = vh_mk_kind(m, n + d, 0); }
    else { X = vh_mk_kind(m + d, n, 0); Y = vh_mk_kind(m, n, 0); Z = vh_mk_kind(m, n, 0); }
    break;
  case 7: X = vh_mk_kind(n + (v ? d : 0), m + (v ? 0 : d), 0); Y = vh_mk_kind(m, n, 0); break;
  case 8: X = v ? vh_mk_kind(m, n + d, 0) : vh_mk_kind(m + d, n, 0); Y = vh_mk_kind(m + (v ? d : 2 * d), n + (v ? 2 * d : d), 0);
    if (X->nrows >= Y->nrows && X->ncols >= Y->ncols) { Y = vh_mk_kind(X->nrows + 1, X->ncols, 0); }
    break;
  case 9: if (v == 0) { X = NULL; Y = vh_mk_kind(m, n, 0); Z = vh_mk_kind(m + d, l, 0); } else { X = vh_mk_kind(m, n + l + d, 0); Y = vh_mk_kind(m, n, 0); Z = vh_mk_kind(m, l, 0); } break;
  case 10: if (v == 0) { X = NULL; Y = vh_mk_kind(m, n, 0); Z = vh_mk_kind(l, n + d, 0); } else { X = vh_mk_kind(m + l + d, n, 0); Y = vh_mk_kind(m, n, 0); Z = vh_mk_kind(l, n, 0); } break;
  case 11: Y = vh_mk_kind(m + d, n + d, 0); X = v ? vh_mk_kind(m, n + d, 0) : vh_mk_kind(m + d, n, 0); break;
  case 12: case 13: /* X U = B: U must be square and match the columns of B */
    if (v == 0) { X = vh_mk_kind(n, n + d, 0); Y = vh_mk_kind(m, n, 0); } else { X = vh_mk_kind(n + d, n + d, 0); Y = vh_mk_kind(m, n, 0); }
    break;
  case 14: case 15:
    if (v == 0) { X = vh_mk_kind(n + d, n, 0); Y = vh_mk_kind(n, m, 0); } else { X = vh_mk_kind(n + d, n + d, 0); Y = vh_mk_kind(n, m, 0); }
    break;
  case 16: X = vh_mk_kind(m, n, 0); Y = vh_mk_kind((m > n ? m : n) + d, l, 0); break;
  case 17: case 18: X = vh_mk_kind(m, n, 0); P = mzp_init(m + (v ? d : 0)); Q = mzp_init(n + (v ? 0 : d)); break;
  case 19: X = vh_mk_kind(m, n, 0); Y = vh_mk_kind(m > n ? m : n, l, 0); P = mzp_init(m + (v ? d : 0)); Q = mzp_init(n + (v ? 0 : d)); break;
  case 20: case 25: Y = vh_mk_kind(m, l, 0); Z = vh_mk_kind(l, n, 0); break;
  case 21: X = vh_mk_kind(m, n, 0); Y = vh_mk_kind(m, l, 0); Z = vh_mk_kind(l, n, 0); break;
  case 22: P = mzp_init(m); Q = mzp_init(m + d); break;     /* the target is shorter than the source */
  }
  bad(names[which], which, X, Y, Z, P, Q);
  if (P) mzp_free(P);
  if (Q) mzp_free(Q);
  vh_free_all();
}

int fam_baddims(const vh_args_t *a) {
  int ncases = a->cases ? a->cases : (a->tier ? 3000 : 600);
  for (long idx = 0; idx < ncases; idx++) {
    if (!VH_SHARD(a, idx)) continue;
    vh_case_seed(a, idx);
    VH_CASE(idx)
    baddims_case();
    VH_CASE_END
  }
  return 0;
}
