/* vh_main.c - entry point: vh drive <family> --out f --seed s --shard i/n --tier quick|thorough ... */
#include "vh.h"
#include <unistd.h>

static void usage(void) {
  fprintf(stderr, "usage: vh drive <family> --out <file> [--seed n] [--shard i/n] [--tier quick|thorough] [--maxdim n] [--env e] [--extra s]\n");
  exit(2);
}

int main(int argc, char **argv) {
  if (argc < 3) usage();
  vh_args_t a;
  memset(&a, 0, sizeof a);
  a.nshards = 1;
  a.seed = 1;
  a.maxdim = 0;
  a.extra = "";
  a.only = -1;
  if (strcmp(argv[1], "drive")) usage();
  a.family = argv[2];
  for (int i = 3; i < argc; i++) {
    if (!strcmp(argv[i], "--out") && i + 1 < argc) a.out = argv[++i];
    else if (!strcmp(argv[i], "--seed") && i + 1 < argc) a.seed = strtoull(argv[++i], 0, 10);
    else if (!strcmp(argv[i], "--shard") && i + 1 < argc) { sscanf(argv[++i], "%d/%d", &a.shard, &a.nshards); }
    else if (!strcmp(argv[i], "--tier") && i + 1 < argc) a.tier = !strcmp(argv[++i], "thorough");
    else if (!strcmp(argv[i], "--maxdim") && i + 1 < argc) a.maxdim = atoi(argv[++i]);
    else if (!strcmp(argv[i], "--env") && i + 1 < argc) a.env = atoi(argv[++i]);
    else if (!strcmp(argv[i], "--only") && i + 1 < argc) a.only = atol(argv[++i]);
    else if (!strcmp(argv[i], "--cases") && i + 1 < argc) a.cases = atoi(argv[++i]);
    else if (!strcmp(argv[i], "--extra") && i + 1 < argc) a.extra = argv[++i];
    else usage();
  }
  if (!a.out) usage();
  vh_hooks_install();
  return vh_run_family(&a);
}
